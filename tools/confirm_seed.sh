#!/bin/bash
# usage: tools/confirm_seed.sh <PROP> <N> [extra go-test env like CGO_ENABLED=0]
# Confirms a seeded change produced by a sub-agent (files in /tmp/<PROP>-scratch) in the scratch
# worktree /tmp/seed-<PROP>: builds, runs the affected package's tests with the patch (demo absent),
# runs the demo with and without the patch. Stores it as /verif/seeded/<PROP>-<N>/ when confirmed.
set -u
P=$1; N=$2; shift 2
ENVX="$@"
WT=/tmp/seed-$P; SC=/tmp/$P-scratch
export PATH=/root/go/pkg/mod/golang.org/toolchain@v0.0.1-go1.25.0.linux-amd64/bin:$PATH GOTOOLCHAIN=local GOPROXY=off; unset GOFLAGS
pkg=$(python3 -c "import json;print(json.load(open('$SC/meta$N.json'))['demo_package'])" 2>/dev/null)
tst=$(python3 -c "import json;print(json.load(open('$SC/meta$N.json'))['demo_test'])" 2>/dev/null)
cd $WT || exit 2
git checkout -q -- . ; find . -name 'zz_seed_demo*' -delete
log=/tmp/confirm-$P-$N.log; : > $log
git apply --check $SC/patch$N.diff || { echo "patch does not apply"; exit 1; }
git apply $SC/patch$N.diff
echo "## build+tests with patch" >> $log
if env $ENVX go build ./... >> $log 2>&1; then echo BUILD_OK >> $log; else echo BUILD_FAIL >> $log; fi
if env $ENVX go test -count=1 -skip TestResolveInConditional ./$pkg/ >> $log 2>&1; then echo TESTS_PASS_WITH_PATCH >> $log; else echo TESTS_FAIL_WITH_PATCH >> $log; fi
cp $SC/demo${N}_test.go $pkg/zz_seed_demo${N}_test.go
echo "## demo with patch" >> $log
if env $ENVX go test -count=1 -run "^$tst\$" ./$pkg/ >> $log 2>&1; then echo DEMO_PASS_WITH_PATCH >> $log; else echo DEMO_FAIL_WITH_PATCH >> $log; fi
git checkout -q -- .
echo "## demo without patch" >> $log
if env $ENVX go test -count=1 -run "^$tst\$" ./$pkg/ >> $log 2>&1; then echo DEMO_PASS_WITHOUT_PATCH >> $log; else echo DEMO_FAIL_WITHOUT_PATCH >> $log; fi
rm -f $pkg/zz_seed_demo${N}_test.go
find . -name contracts_verif.go -delete 2>/dev/null
grep -E "^(BUILD|TESTS|DEMO)_" $log | tr '\n' ' '; echo
if grep -q BUILD_OK $log && grep -q TESTS_PASS_WITH_PATCH $log && grep -q DEMO_FAIL_WITH_PATCH $log && grep -q DEMO_PASS_WITHOUT_PATCH $log; then
  d=/verif/seeded/$P-${SEEDSUFFIX:-}$N; mkdir -p $d
  cp $SC/patch$N.diff $d/patch.diff; cp $SC/demo${N}_test.go $d/demo_test.go
  python3 - "$SC/meta$N.json" "$d/meta.json" "$log" "$ENVX" <<'PY' 2>/dev/null
import json,sys
m=json.load(open(sys.argv[1]))
m['confirmed_by_me']=open(sys.argv[3]).read()[-3000:]
m['confirmation_summary']='build ok; package tests pass with patch; demo fails with patch; demo passes without patch'
if sys.argv[4]: m['env']=sys.argv[4]
json.dump(m,open(sys.argv[2],'w'),indent=1)
PY
  echo "CONFIRMED -> $d"
else
  echo "NOT CONFIRMED (see $log)"
fi
