#!/usr/bin/env python3
"""Regenerates /verif/MANIFEST.json from tools/claims.json (one entry per property)."""
import json, os
here = os.path.dirname(os.path.abspath(__file__))
root = os.path.dirname(here)
claims = json.load(open(os.path.join(here, "claims.json")))
props = [json.loads(l) for l in open(os.path.join(root, "properties.jsonl"))]
hooks_commits = claims.get("_hook_commits", [])
checks, na = [], []
for p in props:
    c = claims.get(p["id"])
    if not c or not c.get("claimed"):
        na.append({"property_id": p["id"], "reason": (c or {}).get("reason", "no check built yet for this property (plan: DESIGN.md section 5); nothing is claimed")})
        continue
    checks.append({
        "property_id": p["id"],
        "quick_cmd": "./check %s" % p["id"],
        "thorough_cmd": "./check %s --thorough" % p["id"],
        "evidence_file": "/verif/evidence/%s.json" % p["id"],
        "replay_cmd_template": "./check %s --replay {path}" % p["id"],
        "engine": "gpverify",
        "level_claimed": {"category": "proof", "text": c["text"], "design_ref": c.get("design_ref", "DESIGN.md section 5, " + p["id"])},
        "level_note": c["note"],
        "technique": c.get("technique", "contract-based deductive verification: weakest-precondition style VCs generated from go/ssa of /repo, contracts in //@ comments, discharged by z3/cvc5"),
    })
m = {
    "version": 1,
    "setup_cmd": "./build.sh",
    "hooks": {
        "guard": "verif",
        "enable": "contracts are comment-only files contracts_verif.go with '//go:build verif'; the engine loads /repo with -tags verif",
        "baseline_off_cmd": "for m in $(cat /w/out/gomods.txt); do MF=$(cd /repo/$m && . /w/out/goenv.sh && gomodflag); (cd /repo/$m && go test $MF -json -vet=off -count=1 -timeout 25m ./...); done",
        "source_commits": hooks_commits,
        "add_only": True,
    },
    "engines": [{"name": "gpverify", "path": "/verif/engine", "serves_properties": [c["property_id"] for c in checks],
                 "kind_free_text": "self-written VC generator for Go (go/packages + go/ssa -> SMT-LIB2, bit-precise), contracts as //@ comments compiled to typed stubs, obligations raced on z3 5.1.0 / cvc5 1.0 / z3 4.8.12, counterexamples replayed on the real code with go test -overlay"}],
    "checks": checks,
    "not_applicable": na,
    "notes": claims.get("_notes", ""),
}
json.dump(m, open(os.path.join(root, "MANIFEST.json"), "w"), indent=1)
print("claimed:", [c["property_id"] for c in checks])
