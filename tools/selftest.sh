#!/bin/sh
# Must-fail self-test: applies every seeded change in /verif/seeded to /repo (one at a time, undone
# straight afterwards), runs the property's quick check and compares the outcome with what
# meta.json records ("detected_by_check" starts with "caught" / "missed").
# usage: tools/selftest.sh [seed-id ...]
cd "$(dirname "$0")/.."
if ! git -C /repo diff --quiet; then echo "/repo has uncommitted changes; refusing"; exit 2; fi
seeds="$@"
[ -z "$seeds" ] && seeds=$(ls seeded)
bad=0
for s in $seeds; do
  d=seeded/$s
  [ -f $d/patch.diff ] || continue
  prop=$(python3 -c "import json;print(json.load(open('$d/meta.json'))['property'])" 2>/dev/null)
  want=$(python3 -c "import json;print(json.load(open('$d/meta.json')).get('detected_by_check','')[:6].lower())" 2>/dev/null)
  if ! git -C /repo apply --check $PWD/$d/patch.diff 2>/dev/null; then echo "$s: patch does not apply (skipped)"; continue; fi
  git -C /repo apply $PWD/$d/patch.diff
  # the run on the changed tree must not replace the evidence of the unchanged tree
  cp evidence/$prop.json /tmp/selftest.ev.$$ 2>/dev/null
  ./check $prop > /tmp/selftest.$s.log 2>&1
  rc=$?
  git -C /repo checkout -- .
  [ -f /tmp/selftest.ev.$$ ] && mv /tmp/selftest.ev.$$ evidence/$prop.json
  rm -rf replay/$prop
  got=missed; [ $rc -ne 0 ] && got=caught
  flag=""
  if [ "$want" = "caught" ] && [ $got = missed ]; then flag="  <-- REGRESSION"; bad=1; fi
  if [ "$want" = "missed" ] && [ $got = caught ]; then flag="  (now caught)"; fi
  echo "$s prop=$prop recorded=$want now=$got rc=$rc$flag"
done
exit $bad
