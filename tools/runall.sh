#!/bin/sh
# runs every claimed check (quick tier) and prints id, exit status, seconds
cd "$(dirname "$0")/.."
for id in $(python3 -c "import json;print(' '.join(c['property_id'] for c in json.load(open('MANIFEST.json'))['checks']))" 2>/dev/null); do
  s=$(date +%s.%N)
  ./check $id > /tmp/runall.$id.log 2>&1
  rc=$?
  e=$(date +%s.%N)
  printf "%s rc=%s %.0fs %s\n" $id $rc $(echo "$e - $s" | bc) "$(grep -c VIOLATION /tmp/runall.$id.log) violations"
done
