package lz4

// Replays for findings F25 / F26 (properties C07, C06), cgo build.
// run: cd /repo && go test -overlay <ov.json> -vet=off -count=1 -timeout 60s -run TestVerifF2 ./pkg/goDB/encoder/lz4/

import (
	"bytes"
	"os"
	"os/exec"
	"testing"
)

// F25: Decompress takes the address of in[0] although in may be empty (block length 0 in
// damaged metadata with a non-null encoder type): index out of range.
func TestVerifF25EmptyCompressedInput(t *testing.T) {
	defer func() {
		if r := recover(); r != nil {
			t.Fatalf("Decompress panicked on an empty compressed block: %v", r)
		}
	}()
	out := make([]byte, 16)
	f, ferr := os.Open(os.Args[0]) // a file: reading zero bytes succeeds, as for the column files
	if ferr != nil {
		t.Skip(ferr)
	}
	defer f.Close()
	_, err := New().Decompress([]byte{}, out, f)
	t.Logf("err=%v", err)
}

// F26: Compress hands liblz4 a NULL source pointer for an empty input; the high-compression
// levels (>= 10) dereference it: SIGSEGV in C (run in a child process).
func TestVerifF26EmptyInputHighLevel(t *testing.T) {
	if os.Getenv("VERIF_CHILD") == "1" {
		var sink bytes.Buffer
		_, err := New(WithCompressionLevel(12)).Compress([]byte{}, nil, &sink)
		t.Logf("err=%v n=%d", err, sink.Len())
		return
	}
	cmd := exec.Command(os.Args[0], "-test.run", "TestVerifF26EmptyInputHighLevel", "-test.v")
	cmd.Env = append(os.Environ(), "VERIF_CHILD=1")
	outp, err := cmd.CombinedOutput()
	if err != nil {
		n := len(outp)
		if n > 400 {
			n = 400
		}
		t.Fatalf("compressing an empty input at level 12 crashed the process: %v\n%s", err, outp[:n])
	}
}
