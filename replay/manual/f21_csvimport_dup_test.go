package csvimport

// Replay for F21 (C26): two CSV rows with the same interface, timestamp and flow key must be
// stored with their counters summed (the importer reports both as imported).
// Run (from /repo):
//   go test -overlay <overlay.json placing this file into cmd/gpdb/pkg/csvimport> -vet=off -timeout 60s -run TestVerifF21DuplicateRows ./cmd/gpdb/pkg/csvimport/

import (
	"context"
	"os"
	"path/filepath"
	"testing"

	"github.com/els0r/goProbe/v4/pkg/goDB/encoder/encoders"
)

func TestVerifF21DuplicateRows(t *testing.T) {
	inputPath := filepath.Join(t.TempDir(), "input.csv")
	outPath := t.TempDir()
	content := "time,iface,sip,dip,dport,proto,packets received,packets sent,data vol. received,data vol. sent\n" +
		"1711929900,eth0,10.0.0.1,10.0.0.2,443,TCP,3,2,300,200\n" +
		"1711929900,eth0,10.0.0.1,10.0.0.2,443,TCP,4,1,400,100\n"
	if err := os.WriteFile(inputPath, []byte(content), 0o600); err != nil {
		t.Fatal(err)
	}
	summary, err := Import(context.Background(), Options{InputPath: inputPath, OutputPath: outPath, EncoderType: encoders.EncoderTypeLZ4})
	if err != nil {
		t.Fatal(err)
	}
	if summary.RowsImported != 2 {
		t.Fatalf("rows imported: %d", summary.RowsImported)
	}
	desc := mustSingleDayDescriptor(t, filepath.Join(outPath, "eth0"))
	c, err := readDayCounters(filepath.Join(outPath, "eth0"), desc)
	if err != nil {
		t.Fatal(err)
	}
	got := c[1711929900]
	if got.BytesRcvd != 700 || got.BytesSent != 300 || got.PacketsRcvd != 7 || got.PacketsSent != 3 {
		t.Fatalf("two rows reported as imported, stored counters %+v, want {700 300 7 3} (the second row replaced the first)", got)
	}
}
