package goDB

// Replay for finding F8 (property C11): the job queue of a query is filled before any worker
// runs; with one processing unit it holds 64 workloads of 32 day directories, so a query over
// more than 2048 days blocked forever while setting up its workloads.
// run: cd /repo && go test -overlay <ov.json> -vet=off -count=1 -timeout 300s -run TestVerifF8 ./pkg/goDB/

import (
	"testing"
	"time"

	"github.com/els0r/goProbe/v4/pkg/goDB/storage/gpfile"
	"github.com/els0r/goProbe/v4/pkg/types"
)

func TestVerifF8ManyDays(t *testing.T) {
	base := t.TempDir()
	const days = 2100
	start := int64(1262304000) // 2010-01-01
	for d := 0; d < days; d++ {
		ts := start + int64(d)*86400
		dir := gpfile.NewDirWriter(base+"/eth0", ts)
		if err := dir.Open(); err != nil {
			t.Fatal(err)
		}
		if err := dir.WriteBlocks(ts+300, gpfile.TrafficMetadata{}, types.Counters{}, [types.ColIdxCount][]byte{}); err != nil {
			t.Fatal(err)
		}
		if err := dir.Close(); err != nil {
			t.Fatal(err)
		}
	}
	q := NewQuery([]types.Attribute{types.SIPAttribute{}}, nil, types.LabelSelector{})
	mgr, err := NewDBWorkManager(q, base, "eth0", 1)
	if err != nil {
		t.Fatal(err)
	}
	done := make(chan error, 1)
	go func() {
		_, err := mgr.CreateWorkerJobs(start, start+int64(days)*86400)
		done <- err
	}()
	select {
	case err := <-done:
		if err != nil {
			t.Fatal(err)
		}
		if mgr.nWorkloads != (days+WorkBulkSize-1)/WorkBulkSize {
			t.Fatalf("unexpected number of workloads: %d", mgr.nWorkloads)
		}
	case <-time.After(20 * time.Second):
		t.Fatalf("CreateWorkerJobs did not return within 20 s for %d day directories and one processing unit (job queue full, no worker running)", days)
	}
}
