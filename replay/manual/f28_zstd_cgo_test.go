package zstd

// Replay for finding F28 (properties C07, C06), cgo build: Decompress takes the address of in[0]
// although in may be empty (block length 0 in damaged metadata with encoder type zstd).
// run: cd /repo && go test -overlay <ov.json> -vet=off -count=1 -timeout 60s -run TestVerifF28 ./pkg/goDB/encoder/zstd/

import (
	"os"
	"testing"
)

func TestVerifF28EmptyCompressedInput(t *testing.T) {
	defer func() {
		if r := recover(); r != nil {
			t.Fatalf("Decompress panicked on an empty compressed block: %v", r)
		}
	}()
	f, ferr := os.Open(os.Args[0]) // a file: reading zero bytes succeeds, as for the column files
	if ferr != nil {
		t.Skip(ferr)
	}
	defer f.Close()
	out := make([]byte, 16)
	_, err := New().Decompress([]byte{}, out, f)
	t.Logf("err=%v", err)
}
