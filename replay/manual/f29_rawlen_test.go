package gpfile

// Replay for finding F29 (properties C06, C01): a block entry whose raw length is 2^31 or more
// (damaged metadata) makes ReadBlockAtIndex allocate 2*RawLen computed in 32 bits (0) and then
// slice beyond the capacity: panic instead of an error.
// run: cd /repo && go test -overlay <ov.json> -vet=off -count=1 -timeout 60s -run TestVerifF29 ./pkg/goDB/storage/gpfile/

import (
	"os"
	"path/filepath"
	"testing"

	"github.com/els0r/goProbe/v4/pkg/goDB/encoder/encoders"
	"github.com/els0r/goProbe/v4/pkg/goDB/storage"
)

func TestVerifF29HugeRawLen(t *testing.T) {
	defer func() {
		if r := recover(); r != nil {
			t.Fatalf("ReadBlockAtIndex panicked on a block entry with RawLen 2^31: %v", r)
		}
	}()
	name := filepath.Join(t.TempDir(), "col.gpf")
	if err := os.WriteFile(name, []byte{1, 2, 3, 4}, 0o600); err != nil {
		t.Fatal(err)
	}
	hdr := &storage.BlockHeader{BlockList: []storage.BlockAtTime{{Timestamp: 1, Block: storage.Block{Offset: 0, Len: 4, RawLen: 1 << 31, EncoderType: encoders.EncoderTypeLZ4}}}, CurrentOffset: 4}
	g, err := New(name, hdr, ModeRead)
	if err != nil {
		t.Fatal(err)
	}
	defer g.Close()
	_, err = g.ReadBlockAtIndex(0)
	t.Logf("err=%v", err)
}
