package gpfile

// Replay for finding F1 (property C01): a block whose compressed form is larger than the raw
// data and larger than the 4 KiB write buffer is re-encoded without compression after part of
// the compressed bytes has already been flushed to the file. The file position is then ahead
// of the recorded offsets: this block and every later block read back wrong.
// run: cd /repo && go test -overlay <ov.json> -vet=off -count=1 -timeout 60s -run TestVerifF1 ./pkg/goDB/storage/gpfile/

import (
	"bytes"
	"math/rand"
	"path/filepath"
	"testing"

	"github.com/els0r/goProbe/v4/pkg/goDB/storage"
)

func TestVerifF1IncompressibleBlock(t *testing.T) {
	name := filepath.Join(t.TempDir(), "col.gpf")
	hdr := &storage.BlockHeader{}
	w, err := New(name, hdr, ModeWrite)
	if err != nil {
		t.Fatal(err)
	}
	rnd := rand.New(rand.NewSource(1))
	first := make([]byte, 6000) // incompressible and larger than the write buffer
	rnd.Read(first)
	second := bytes.Repeat([]byte("second block "), 40)
	if err := w.writeBlock(100, first); err != nil {
		t.Fatal(err)
	}
	if err := w.writeBlock(200, second); err != nil {
		t.Fatal(err)
	}
	if err := w.Close(); err != nil {
		t.Fatal(err)
	}
	r, err := New(name, hdr, ModeRead)
	if err != nil {
		t.Fatal(err)
	}
	defer r.Close()
	for i, want := range [][]byte{first, second} {
		got, err := r.ReadBlockAtIndex(i)
		if err != nil {
			t.Fatalf("block %d (%d bytes, stored as %+v): %v", i, len(want), hdr.BlockList[i].Block, err)
		}
		if !bytes.Equal(got, want) {
			t.Fatalf("block %d read back differs from what was written (stored as %+v)", i, hdr.BlockList[i].Block)
		}
	}
}
