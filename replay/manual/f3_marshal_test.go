package gpfile

// Replay for finding F3 (property C03): a block whose timestamp lies before the previous
// block's was accepted by (*GPDir).Marshal and read back with another timestamp.
// run: cd /repo && go test -overlay <ov.json> -vet=off -count=1 -timeout 60s -run TestVerifF3 ./pkg/goDB/storage/gpfile/

import (
	"os"
	"testing"

	"github.com/els0r/goProbe/v4/pkg/goDB/storage"
)

func TestVerifF3NonMonotoneTimestamp(t *testing.T) {
	d := &GPDir{Metadata: newMetadata()}
	for i := range d.BlockMetadata {
		d.BlockMetadata[i].BlockList = []storage.BlockAtTime{{Timestamp: 1000}, {Timestamp: 700}}
	}
	d.BlockTraffic = []TrafficMetadata{{}, {}}
	f, err := os.CreateTemp(t.TempDir(), "meta")
	if err != nil {
		t.Fatal(err)
	}
	if err := d.Marshal(f); err != nil {
		t.Logf("rejected as the property demands: %v", err)
		return
	}
	f.Close()
	g, _ := os.Open(f.Name())
	d2 := &GPDir{}
	if err := d2.Unmarshal(g); err != nil {
		t.Fatal(err)
	}
	if got := d2.BlockMetadata[0].BlockList[1].Timestamp; got != 700 {
		t.Fatalf("accepted without error but stored altered: wrote timestamp 700 after 1000, read back %d", got)
	}
}
