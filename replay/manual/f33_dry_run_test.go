package goDB

// Replay for F33 (C24): a dry run of a merge changes nothing - in particular it does not create
// the destination database root (nor a staging directory inside an existing one).
// Run (from /repo):
//   go test -overlay <overlay.json placing this file into pkg/goDB> -vet=off -timeout 60s -run TestVerifF33DryRunTouchesNothing ./pkg/goDB/

import (
	"context"
	"os"
	"path/filepath"
	"testing"
)

func TestVerifF33DryRunTouchesNothing(t *testing.T) {
	root := t.TempDir()
	src := filepath.Join(root, "src")
	dst := filepath.Join(root, "dst-does-not-exist")
	if err := os.MkdirAll(filepath.Join(src, "eth0"), 0o755); err != nil {
		t.Fatal(err)
	}
	if _, err := MergeDatabases(context.Background(), MergeOptions{SourcePath: src, DestinationPath: dst, DryRun: true}); err != nil {
		t.Fatal(err)
	}
	if _, err := os.Stat(dst); err == nil {
		t.Fatalf("the dry run created the destination directory %s", dst)
	}
}
