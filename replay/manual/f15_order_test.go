package distributed

// Replay for finding F15 (property C15): the merged summary took its time span from whichever
// host result arrived last.
// run: cd /repo && go test -overlay <ov.json> -vet=off -count=1 -timeout 60s -run TestVerifC15 ./cmd/global-query/pkg/distributed/

import (
	"context"
	"testing"
	"time"

	"github.com/els0r/goProbe/v4/pkg/query"
	"github.com/els0r/goProbe/v4/pkg/results"
)


func TestVerifC15OrderDependence(t *testing.T) {
	mk := func(host string, first, last int64) *results.Result {
		r := results.New()
		r.Hostname = host
		r.Summary.First, r.Summary.Last = time.Unix(first, 0), time.Unix(last, 0)
		return r
	}
	run := func(order ...*results.Result) *results.Result {
		fin := results.New()
		im, rm := map[string]struct{}{}, results.RowsMap{}
		for _, r := range order {
			aggregateSingleResult(context.Background(), r, fin, &query.Statement{}, im, rm, nil)
		}
		return fin
	}
	ab := run(mk("a", 100, 200), mk("b", 150, 300))
	ba := run(mk("b", 150, 300), mk("a", 100, 200))
	if !ab.Summary.First.Equal(ba.Summary.First) || !ab.Summary.Last.Equal(ba.Summary.Last) {
		t.Fatalf("merged time span depends on arrival order: a,b -> [%d,%d]; b,a -> [%d,%d]", ab.Summary.First.Unix(), ab.Summary.Last.Unix(), ba.Summary.First.Unix(), ba.Summary.Last.Unix())
	}
}
