package goDB

// Replay for F31 (C25): the merge's listing of the interfaces of a source database must not
// report the staging directory an interrupted merge into that database left behind.
// Run (from /repo):
//   go test -overlay <overlay.json placing this file into pkg/goDB> -vet=off -timeout 60s -run TestVerifF31MergeSourceListing ./pkg/goDB/

import (
	"os"
	"path/filepath"
	"testing"
)

func TestVerifF31MergeSourceListing(t *testing.T) {
	db := t.TempDir()
	for _, d := range []string{"eth0", ".gpdb-merge-stage-987654", "eth1"} {
		if err := os.MkdirAll(filepath.Join(db, d), 0o755); err != nil {
			t.Fatal(err)
		}
	}
	ifaces, err := listSourceInterfaces(db)
	if err != nil {
		t.Fatal(err)
	}
	if len(ifaces) != 2 || ifaces[0] != "eth0" || ifaces[1] != "eth1" {
		t.Fatalf("interfaces of the source database: %q, want [eth0 eth1] (the leftover staging directory would be merged as an interface)", ifaces)
	}
}
