package goDB

// Exploration (C25): state a merge leaves when it is killed after the staged day was renamed in
// and before the backup of the old day was removed: <day> and <day>.gpdb-merge-backup-<n> both exist.
import (
	"os"
	"path/filepath"
	"testing"

	"github.com/els0r/goProbe/v4/pkg/capture/capturetypes"
	"github.com/els0r/goProbe/v4/pkg/goDB/encoder/encoders"
	"github.com/els0r/goProbe/v4/pkg/types"
	"github.com/els0r/goProbe/v4/pkg/types/hashmap"
)

func TestVerifF32BackupDirCountedTwice(t *testing.T) {
	dbPath := t.TempDir()
	w := NewDBWriter(dbPath, "eth0", encoders.EncoderTypeLZ4)
	base := int64(1711929600)
	m := hashmap.NewAggFlowMap()
	m.PrimaryMap.Set(types.NewV4KeyStatic([4]byte{10, 0, 0, 1}, [4]byte{10, 0, 0, 9}, []byte{0, 80}, 6), types.Counters{BytesRcvd: 100, BytesSent: 10, PacketsRcvd: 2, PacketsSent: 1})
	if err := w.Write(m, capturetypes.CaptureStats{}, base+300); err != nil {
		t.Fatal(err)
	}
	// locate the day directory and copy it to a backup name next to it
	monthDir := filepath.Join(dbPath, "eth0", "2024", "04")
	ents, err := os.ReadDir(monthDir)
	if err != nil || len(ents) != 1 {
		t.Fatalf("%v %v", err, ents)
	}
	day := filepath.Join(monthDir, ents[0].Name())
	backup := day + ".gpdb-merge-backup-1711930000000000000"
	if err := os.CopyFS(backup, os.DirFS(day)); err != nil {
		t.Fatal(err)
	}
	wm, err := NewDBWorkManager(NewMetadataQuery(), dbPath, "eth0", 1)
	if err != nil {
		t.Fatal(err)
	}
	md, err := wm.ReadMetadata(base, base+86399)
	t.Logf("day dir %s; metadata: %+v err=%v", ents[0].Name(), md, err)
	if err != nil {
		t.Fatalf("listing fails: %v", err)
	}
	if md.Counts.PacketsRcvd != 2 {
		t.Fatalf("one stored block with 2 packets received; the listing reports %d (the leftover backup directory is read as a second copy of the day)", md.Counts.PacketsRcvd)
	}
}
