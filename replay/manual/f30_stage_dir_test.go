package info

// Replay for F30 (C25): a staging directory left behind by an interrupted merge
// (MergeDatabases creates ".gpdb-merge-stage-*" inside the destination root and removes it in a
// deferred call, which a killed process never runs) must not be listed as an interface.
// Run (from /repo):
//   go test -overlay <overlay.json placing this file into pkg/goDB/info> -vet=off -timeout 60s -run TestVerifF30LeftoverStageDir ./pkg/goDB/info/

import (
	"os"
	"path/filepath"
	"testing"
)

func TestVerifF30LeftoverStageDir(t *testing.T) {
	db := t.TempDir()
	for _, d := range []string{"eth0", ".gpdb-merge-stage-123456", "eth1"} {
		if err := os.MkdirAll(filepath.Join(db, d), 0o755); err != nil {
			t.Fatal(err)
		}
	}
	ifaces, err := GetInterfaces(db)
	if err != nil {
		t.Fatal(err)
	}
	if len(ifaces) != 2 || ifaces[0] != "eth0" || ifaces[1] != "eth1" {
		t.Fatalf("interfaces of the database: %q, want [eth0 eth1] (the leftover merge staging directory is listed as an interface)", ifaces)
	}
}
