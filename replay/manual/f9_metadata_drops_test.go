package goDB

// Replay for F9 (C12): the interface summary of a time range must count the drops of the blocks
// inside the range only. Three blocks in one day with 5, 70 and 900 drops; the range covers the
// middle block.
// Run (from /repo):
//   go test -overlay <overlay.json placing this file into pkg/goDB> -vet=off -timeout 60s -run TestVerifF9SummaryDrops ./pkg/goDB/

import (
	"testing"

	"github.com/els0r/goProbe/v4/pkg/capture/capturetypes"
	"github.com/els0r/goProbe/v4/pkg/goDB/encoder/encoders"
	"github.com/els0r/goProbe/v4/pkg/types"
	"github.com/els0r/goProbe/v4/pkg/types/hashmap"
)

func TestVerifF9SummaryDrops(t *testing.T) {
	dbPath := t.TempDir()
	w := NewDBWriter(dbPath, "eth0", encoders.EncoderTypeLZ4)
	base := int64(1711929600) // 2024-04-01 00:00:00 UTC
	ts := []int64{base + 300, base + 600, base + 900}
	drops := []uint64{5, 70, 900}
	for i := range ts {
		m := hashmap.NewAggFlowMap()
		m.PrimaryMap.Set(types.NewV4KeyStatic([4]byte{10, 0, 0, byte(i + 1)}, [4]byte{10, 0, 0, 9}, []byte{0, 80}, 6), types.Counters{BytesRcvd: 100, BytesSent: 10, PacketsRcvd: 2, PacketsSent: 1})
		if err := w.Write(m, capturetypes.CaptureStats{Dropped: drops[i]}, ts[i]); err != nil {
			t.Fatal(err)
		}
	}
	wm, err := NewDBWorkManager(NewMetadataQuery(), dbPath, "eth0", 1)
	if err != nil {
		t.Fatal(err)
	}
	whole, err := wm.ReadMetadata(base, base+86399)
	if err != nil {
		t.Fatal(err)
	}
	if whole.Traffic.NumDrops != 975 || whole.Traffic.NumV4Entries != 3 {
		t.Fatalf("whole day: %+v", whole.Stats)
	}
	wm, _ = NewDBWorkManager(NewMetadataQuery(), dbPath, "eth0", 1)
	mid, err := wm.ReadMetadata(ts[1], ts[1])
	if err != nil {
		t.Fatal(err)
	}
	t.Logf("range [%d,%d]: %+v first=%v last=%v", ts[1], ts[1], mid.Stats, mid.First, mid.Last)
	if mid.Traffic.NumV4Entries != 1 || mid.Counts.PacketsRcvd != 2 {
		t.Fatalf("the range holds one block with one flow, summary says %+v", mid.Stats)
	}
	if mid.Traffic.NumDrops != 70 {
		t.Fatalf("the block in the range recorded 70 drops, the summary reports %d (drops of the blocks outside the range are not subtracted)", mid.Traffic.NumDrops)
	}
}
