package zstd

// Replay for finding F2 (properties C07 / C02), pure-Go build (CGO_ENABLED=0): Compress appended
// the frame to the caller's scratch buffer instead of overwriting it, so the bytes handed to
// the writer started with the scratch buffer's old content.
// run: cd /repo && CGO_ENABLED=0 go test -overlay <ov.json> -vet=off -count=1 -timeout 60s -run TestVerifF2 ./pkg/goDB/encoder/zstd/

import (
	"bytes"
	"testing"
)

func TestVerifF2ScratchBufferLeaks(t *testing.T) {
	data := bytes.Repeat([]byte("goProbe flow data "), 50)
	var ref, got bytes.Buffer
	e := New()
	if _, err := e.Compress(data, nil, &ref); err != nil {
		t.Fatal(err)
	}
	scratch := make([]byte, 16) // what a pool's Get(16) hands out: length 16, not 0
	n, err := e.Compress(data, scratch, &got)
	if err != nil {
		t.Fatal(err)
	}
	if n != ref.Len() || !bytes.Equal(got.Bytes(), ref.Bytes()) {
		t.Fatalf("with a non-empty scratch buffer Compress emitted %d bytes (reported %d), the frame alone is %d bytes; first bytes % x", got.Len(), n, ref.Len(), got.Bytes()[:20])
	}
	out := make([]byte, len(data))
	m, err := e.Decompress(make([]byte, got.Len()), out, bytes.NewReader(got.Bytes()))
	if err != nil || m != len(data) || !bytes.Equal(out[:m], data) {
		t.Fatalf("round trip failed: n=%d err=%v", m, err)
	}
}
