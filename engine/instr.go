package main

import (
	"fmt"
	"os"
	"go/constant"
	"go/token"
	"go/types"
	"math/big"

	"golang.org/x/tools/go/ssa"
)

func constantString(c *ssa.Const) string { return constant.StringVal(c.Value) }

// ------------------------------------------------------------------ memory access helpers

// load reads a value of type t at (obj, off) from mem.
func (f *Frame) loadFrom(mem MemState, t types.Type, obj, off *Term) []*Term {
	ss := f.u.W.layout.Slots(t)
	out := make([]*Term, len(ss))
	for i, s := range ss {
		m := mem.m[s.Key()]
		out[i] = f.u.mc.Sel(m, obj, f.tb().Add(off, f.tb().BV(64, int64(i))))
	}
	return out
}

// storeTo writes slots at (obj, off) into the current memory.
func (f *Frame) storeTo(obj, off *Term, vals []*Term) {
	f.cur.mem = f.cur.mem.clone()
	for i, v := range vals {
		k := v.Sort.Key()
		f.cur.mem.m[k] = f.u.mc.Store(f.cur.mem.m[k], obj, f.tb().Add(off, f.tb().BV(64, int64(i))), v)
	}
}

// checkWrite emits the frame obligations for a write of n slots at (obj, off): against the
// function's assigns clause (when the function's frame is checked) and against the assigns
// clause of every enclosing loop that has one.
func (f *Frame) checkWrite(obj, off, n *Term, what string, pos token.Pos) {
	if f.spec {
		return
	}
	tb := f.tb()
	end := tb.Add(off, n)
	if fs := f.frameSpecActive(); fs != nil {
		ok := tb.Not(tb.Ult(obj, tb.BV(32, freshBase))) // fresh object
		if !ok.IsTrue() {
			for _, r := range fs.regions {
				in := tb.And(r.cond, tb.Eq(obj, r.obj), tb.Ule(r.lo, off), tb.Ule(end, r.hi))
				ok = tb.Or(ok, in)
			}
			f.u.addObl("frame", f.anchorFor(what), f.cur.reach, ok, f.pos(pos), "write outside the function's assigns clause")
		}
	}
	for _, lf := range f.activeLoopFrames() {
		ok := tb.Not(tb.Ult(obj, lf.limit)) // allocated since the loop was entered
		if ok.IsTrue() {
			continue
		}
		for _, r := range lf.regions {
			in := tb.And(r.cond, tb.Eq(obj, r.obj), tb.Ule(r.lo, off), tb.Ule(end, r.hi))
			ok = tb.Or(ok, in)
		}
		if ok.IsTrue() {
			continue
		}
		f.u.addObl("frame", f.anchorFor(fmt.Sprintf("loop%d:%s", lf.ord, what)), f.cur.reach, ok, f.pos(pos), fmt.Sprintf("write outside the assigns clause of loop %d", lf.ord))
	}
}

// loopFrame: the assigns clause of a loop that is being executed. limit: objects with an id
// at or above it were allocated after the loop was entered.
type loopFrame struct {
	owner   *Frame
	li      *loopInfo
	ord     int
	limit   *Term
	regions []region
}

// activeLoopFrames: the loops with an assigns clause around the instruction being executed -
// those of the callers of an expanded function and those of this function whose body contains
// the current block.
func (f *Frame) activeLoopFrames() []*loopFrame {
	var out []*loopFrame
	for _, lf := range f.loopFrames {
		if lf.owner == f && (f.curBlk == nil || !lf.li.body[f.curBlk]) {
			continue
		}
		out = append(out, lf)
	}
	return out
}

// writeChecksActive: some frame (function or loop) is being checked.
func (f *Frame) writeChecksActive() bool {
	return !f.spec && (f.frameSpecActive() != nil || len(f.activeLoopFrames()) > 0)
}

func (f *Frame) frameSpecActive() *frameSpec {
	if f.frame != nil && f.frame.active {
		return f.frame
	}
	return nil
}

func (f *Frame) oblig(class, what string, prop *Term, pos token.Pos, detail string) {
	if f.spec {
		return
	}
	if prop.IsTrue() {
		return
	}
	if !f.u.lemmaMode && !f.u.mayPanic {
		f.u.addObl(class, f.anchorFor(what), f.cur.reach, prop, f.pos(pos), detail)
	}
	// execution continues only when the check passed
	if os.Getenv("GPV_DEBUGFALSE") != "" && prop.IsFalse() {
		fmt.Fprintf(os.Stderr, "DEBUG false check %s %s at %v: %s\n", class, what, f.pos(pos), detail)
	}
	f.u.addFact(f.tb().Implies(f.cur.reach, prop))
}

func (f *Frame) nonNil(obj *Term, what string, pos token.Pos) {
	if f.spec {
		return
	}
	tb := f.tb()
	p := tb.Not(tb.Eq(obj, tb.BV(32, 0)))
	f.oblig("nopanic:nil", what, p, pos, "nil dereference")
}

// toInt64 converts an integer value of Go type t to a 64-bit term (sign- or zero-extended).
func (f *Frame) toInt64(v *Term, t types.Type) *Term {
	if v.Sort.W == 64 {
		return v
	}
	if isSigned(t) {
		return f.tb().SExt(v, 64)
	}
	return f.tb().ZExt(v, 64)
}

func (f *Frame) allocObj() *Term {
	f.u.objCtr++
	return f.tb().BV(32, freshBase+f.u.objCtr)
}

// zeroInit makes slots [0,n) of a fresh object read as zero for every sort in sorts.
func (f *Frame) zeroInit(obj *Term, n *Term, sorts []Sort) {
	f.cur.mem = f.cur.mem.clone()
	for _, s := range sorts {
		k := s.Key()
		zb := f.u.zeroBase(s)
		f.cur.mem.m[k] = f.u.mc.HavocRange(f.cur.mem.m[k], obj, f.tb().BV(64, 0), n, zb)
	}
}

func (u *Unit) zeroBase(s Sort) *MemNode {
	if u.zeroBases == nil {
		u.zeroBases = map[string]*MemNode{}
	}
	if z, ok := u.zeroBases[s.Key()]; ok {
		return z
	}
	z := u.mc.node(&MemNode{kind: mZero, sort: s, val: u.zeroOf(s)})
	u.zeroBases[s.Key()] = z
	return z
}

// ------------------------------------------------------------------ instructions

func (f *Frame) instr(in ssa.Instruction) {
	tb := f.tb()
	L := f.u.W.layout
	switch x := in.(type) {
	case *ssa.DebugRef:
		return
	case *ssa.Alloc:
		et := x.Type().Underlying().(*types.Pointer).Elem()
		obj := f.allocObj()
		if f.u.W.privateAlloc(x) {
			// the address of this variable never escapes its function (go/ssa's own analysis, or:
			// every address derived from it is only loaded from / stored to)
			if f.u.privateObjs == nil {
				f.u.privateObjs = map[int64]bool{}
			}
			f.u.privateObjs[freshBase+f.u.objCtr] = true
		}
		f.zeroInit(obj, tb.BV(64, L.Size(et)), L.ElemSorts(et))
		f.set(x, []*Term{obj, tb.BV(64, 0)})
		// a variable of type et: a typed pointer materialised later can only point into it
		// when its target type occurs in et or contains it (type safety, see typesafety.go)
		if L.Size(et) > 0 {
			f.u.allocs = append(f.u.allocs, typedPtr{et, obj, tb.BV(64, 0)})
		}
	case *ssa.UnOp:
		f.unop(x)
	case *ssa.BinOp:
		f.set(x, f.binop(x.Op, x.X.Type(), x.Y.Type(), f.val(x.X), f.val(x.Y), x.Pos(), x.Type()))
	case *ssa.Store:
		a := f.val(x.Addr)
		v := f.val(x.Val)
		f.nonNil(a[0], "store", x.Pos())
		if nb, ok := f.reinterpretBytes(x.Addr, x.Val.Type()); ok {
			// *(*uintN)(unsafe.Pointer(&b[i])) = v : little-endian store of N/8 bytes (amd64)
			f.checkWrite(a[0], a[1], tb.BV(64, int64(nb)), "store", x.Pos())
			bytes := make([]*Term, nb)
			for k := 0; k < nb; k++ {
				bytes[k] = tb.Extract(8*k+7, 8*k, v[0])
			}
			f.storeTo(a[0], a[1], bytes)
			return
		}
		f.checkWrite(a[0], a[1], tb.BV(64, int64(len(v))), "store", x.Pos())
		if len(f.u.noEscapeObjs) > 0 && !f.spec && hasRefs(x.Val.Type()) {
			// ownership: the function must not keep a reference to the caller's buffer
			for _, i := range refSlots(x.Val.Type()) {
				if i >= len(v) {
					continue
				}
				for _, k := range f.u.noEscapeObjs {
					prop := tb.Or(tb.Eq(k, tb.BV(32, 0)), tb.Not(tb.Eq(v[i], k)))
					if !prop.IsTrue() {
						f.u.addObl("escape", f.anchorFor("store"), f.cur.reach, prop, f.pos(x.Pos()), "a reference to the caller's buffer is stored (the callee must keep its own copy)")
					}
				}
			}
		}
		f.storeTo(a[0], a[1], v)
	case *ssa.FieldAddr:
		p := f.val(x.X)
		st := x.X.Type().Underlying().(*types.Pointer).Elem().Underlying().(*types.Struct)
		f.nonNil(p[0], "fieldaddr", x.Pos())
		f.set(x, []*Term{p[0], tb.Add(p[1], tb.BV(64, L.FieldOffset(st, x.Field)))})
	case *ssa.Field:
		v := f.val(x.X)
		st := x.X.Type().Underlying().(*types.Struct)
		o := L.FieldOffset(st, x.Field)
		n := L.Size(st.Field(x.Field).Type())
		f.set(x, v[o:o+n])
	case *ssa.IndexAddr:
		f.indexAddr(x)
	case *ssa.Index:
		f.index(x)
	case *ssa.Slice:
		f.slice(x)
	case *ssa.MakeSlice:
		et := x.Type().Underlying().(*types.Slice).Elem()
		ln := f.toInt64(f.val(x.Len)[0], x.Len.Type())
		cp := f.toInt64(f.val(x.Cap)[0], x.Cap.Type())
		f.oblig("nopanic:makeslice", "makeslice", tb.And(tb.Sle(tb.BV(64, 0), ln), tb.Sle(ln, cp)), x.Pos(), "makeslice: len out of range")
		// allocation sizes are assumed to fit the address space (otherwise the runtime panics / OOMs)
		f.u.addFact(tb.Implies(f.cur.reach, tb.Ule(cp, tb.BVU(64, 1<<40))))
		obj := f.allocObj()
		f.zeroInit(obj, tb.Mul(cp, tb.BV(64, L.Size(et))), L.ElemSorts(et))
		f.set(x, []*Term{obj, tb.BV(64, 0), ln, cp})
	case *ssa.Convert:
		f.convert(x)
	case *ssa.ChangeType:
		f.set(x, f.val(x.X))
	case *ssa.ChangeInterface:
		f.set(x, f.val(x.X))
	case *ssa.MakeInterface:
		f.makeInterface(x)
	case *ssa.TypeAssert:
		f.typeAssert(x)
	case *ssa.Extract:
		tup := x.Tuple.Type().(*types.Tuple)
		var o int64
		for i := 0; i < x.Index; i++ {
			o += L.Size(tup.At(i).Type())
		}
		n := L.Size(tup.At(x.Index).Type())
		f.set(x, f.val(x.Tuple)[o:o+n])
	case *ssa.Call:
		f.call(x, x.Common(), x)
	case *ssa.MakeClosure:
		f.makeClosure(x)
	case *ssa.Defer:
		f.deferCall(x)
	case *ssa.RunDefers:
		f.runDefers()
	case *ssa.SliceToArrayPointer:
		s := f.val(x.X)
		n := x.Type().Underlying().(*types.Pointer).Elem().Underlying().(*types.Array).Len()
		f.oblig("nopanic:slice", "slice2array", tb.Sle(tb.BV(64, n), s[2]), x.Pos(), "slice too short for array conversion")
		f.set(x, []*Term{s[0], s[1]})
	case *ssa.MakeMap:
		f.makeMap(x)
	case *ssa.MapUpdate:
		f.mapUpdate(x)
	case *ssa.Lookup:
		f.lookup(x)
	case *ssa.Range, *ssa.Next:
		f.rangeNext(in)
	case *ssa.MakeChan:
		// a channel is an object with a queue length (slot 0) and a capacity (slot 1) in the
		// length memory; elements are not modelled
		obj := f.allocObj()
		sz := f.toInt64(f.val(x.Size)[0], x.Size.Type())
		f.oblig("nopanic:makechan", "makechan", tb.Sle(tb.BV(64, 0), sz), x.Pos(), "makechan: size out of range")
		f.cur.mem = f.cur.mem.clone()
		f.cur.mem.m[mapLenKey] = f.u.mc.Store(f.cur.mem.m[mapLenKey], obj, tb.BV(64, 0), tb.BV(64, 0))
		f.cur.mem.m[mapLenKey] = f.u.mc.Store(f.cur.mem.m[mapLenKey], obj, tb.BV(64, 1), sz)
		f.set(x, []*Term{obj})
	case *ssa.Go:
		f.u.note("goroutine spawn not modelled in " + f.fn.String())
		f.havocAll("go statement")
	case *ssa.Send:
		// Sequential semantics (no receiver runs concurrently with the unit): a send on a full or
		// nil channel blocks forever. Under flag nonblocking this is an obligation; in any case the
		// queue grows by one.
		ch := f.val(x.Chan)[0]
		ln, cp := f.chanLen(ch), f.chanCap(ch)
		if f.u.nonBlocking && !f.spec {
			f.u.addObl("blocks:send", f.anchorFor("send"), f.cur.reach, tb.And(tb.Not(tb.Eq(ch, tb.BV(32, 0))), tb.Slt(ln, cp)), f.pos(x.Pos()), "send on a channel that may be full (no receiver runs yet): blocks forever")
		} else {
			f.u.note("channel send: blocking is not checked in " + f.fn.String())
		}
		f.cur.mem = f.cur.mem.clone()
		f.cur.mem.m[mapLenKey] = f.u.mc.Store(f.cur.mem.m[mapLenKey], ch, tb.BV(64, 0), tb.Add(ln, tb.BV(64, 1)))
	case *ssa.Select:
		f.set(x, f.u.freshValue("select", x.Type()))
		if recvOnlySelect(x) {
			// like a plain receive: which case fires and what is received is arbitrary; the
			// goroutine's own memory is not touched
			f.u.note("select over receive cases: outcome arbitrary, in " + f.fn.String())
		} else {
			f.u.note("select not modelled in " + f.fn.String())
			f.havocAll("select")
		}
	default:
		panic(unsupported(fmt.Sprintf("instruction %T in %s", in, f.fn.String())))
	}
}

func (f *Frame) unop(x *ssa.UnOp) {
	tb := f.tb()
	v := f.val(x.X)
	switch x.Op {
	case token.MUL: // load
		f.nonNil(v[0], "load", x.Pos())
		mem := f.cur.mem
		if f.stub != nil && f.stub.oldLoads[x] {
			// old(...) reads the pre-state, except for the stub's own local objects (cells of
			// captured parameters, copies of array parameters), which only exist in the stub's memory
			local := false
			if c, ok := v[0].ConstInt64(); ok && v[0].Op == "bv" {
				_ = c
				local = v[0].Val.Cmp(big.NewInt(freshBase+f.stub.startCtr)) > 0
			}
			if !local {
				mem = f.stub.old
			}
		}
		if nb, ok := f.reinterpretBytes(x.X, x.Type()); ok {
			// *(*uintN)(unsafe.Pointer(&b[i])) : little-endian load of N/8 bytes (amd64)
			m := mem.m[BV8.Key()]
			acc := f.u.mc.Sel(m, v[0], v[1])
			for k := 1; k < nb; k++ {
				acc = tb.Concat(f.u.mc.Sel(m, v[0], tb.Add(v[1], tb.BV(64, int64(k)))), acc)
			}
			f.set(x, []*Term{acc})
			return
		}
		res := f.loadFrom(mem, x.Type(), v[0], v[1])
		f.set(x, res)
		f.loadFacts(x.Type(), res)
	case token.NOT:
		f.set(x, []*Term{tb.Not(v[0])})
	case token.SUB:
		if isFloat(x.Type()) {
			f.set(x, []*Term{tb.UF("fneg", BV64, v[0])})
		} else {
			f.set(x, []*Term{tb.Neg(v[0])})
		}
	case token.XOR:
		f.set(x, []*Term{tb.BNot(v[0])})
	case token.ARROW:
		f.u.note("channel receive not modelled in " + f.fn.String())
		f.set(x, f.u.freshValue("recv", x.Type()))
	default:
		panic(unsupported("unop " + x.Op.String()))
	}
}

// chanLen / chanCap: queue length and capacity of a channel object (0 <= len <= cap always holds)
func (f *Frame) chanLen(ch *Term) *Term {
	tb := f.tb()
	ln := f.u.mc.Sel(f.cur.mem.m[mapLenKey], ch, tb.BV(64, 0))
	cp := f.u.mc.Sel(f.cur.mem.m[mapLenKey], ch, tb.BV(64, 1))
	f.u.addFact(tb.Implies(f.cur.reach, tb.And(tb.Sle(tb.BV(64, 0), ln), tb.Sle(ln, cp), tb.Sle(cp, tb.BV(64, 1<<40)))))
	return ln
}

func (f *Frame) chanCap(ch *Term) *Term {
	tb := f.tb()
	f.chanLen(ch)
	return f.u.mc.Sel(f.cur.mem.m[mapLenKey], ch, tb.BV(64, 1))
}

// loadFacts adds the validity facts of a value that was read from memory.
func (f *Frame) loadFacts(t types.Type, v []*Term) {
	if !hasRefs(t) {
		return
	}
	tb := f.tb()
	// references read straight from the initial memory belong to the input world
	bound := tb.BVU(32, 0xffffffff)
	pure := true
	for _, s := range v {
		if s.Sort.K == KBV && s.Sort.W == 32 && !(len(s.Op) > 6 && s.Op[:6] == "uf:m0_") {
			pure = false
		}
	}
	if pure {
		bound = tb.BVU(32, freshBase)
	}
	for _, fact := range f.u.validFacts(t, v, bound) {
		if !fact.hasBV {
			f.u.addFact(fact)
		}
	}
	if len(f.u.noEscapeObjs) > 0 {
		// nothing in the initial memory refers to the caller's buffer (assumption of the noescape clause)
		for _, i := range refSlots(t) {
			if i >= len(v) || v[i].hasBV {
				continue
			}
			n := 0
			var walk func(c *Term, x *Term)
			walk = func(c *Term, x *Term) {
				if n > 32 {
					return
				}
				switch {
				case x.Op == "ite":
					walk(tb.And(c, x.Args[0]), x.Args[1])
					walk(tb.And(c, tb.Not(x.Args[0])), x.Args[2])
				case isBaseRead(x):
					// (cells of a havocked memory too: every store of the function is checked not to
					// store the buffer, callees that do not receive it cannot reach it, so by induction
					// over the execution no cell ever holds a reference to it)
					n++
					for _, k := range f.u.noEscapeObjs {
						f.u.addFact(tb.Implies(c, tb.Or(tb.Eq(k, tb.BV(32, 0)), tb.Not(tb.Eq(x, k)))))
					}
				}
			}
			walk(tb.True(), v[i])
		}
	}
	if !pure {
		// a read that the memory layers turned into a case distinction: every alternative that
		// is a cell of the initial memory is an input-world object under its own path condition
		for _, i := range refSlots(t) {
			if i >= len(v) || v[i].hasBV {
				continue
			}
			n := 0
			var walk func(c *Term, x *Term)
			walk = func(c *Term, x *Term) {
				if n > 32 {
					return
				}
				switch {
				case x.Op == "ite":
					walk(tb.And(c, x.Args[0]), x.Args[1])
					walk(tb.And(c, tb.Not(x.Args[0])), x.Args[2])
				case len(x.Op) > 6 && x.Op[:6] == "uf:m0_":
					n++
					f.u.addFact(tb.Implies(c, tb.rawUlt(x, tb.BVU(32, freshBase))))
				case isBaseRead(x):
					// a cell of a memory havocked by a call or at a loop head: an object that existed then
					if b, ok := f.u.mc.baseBounds[x.Op[3:]]; ok {
						n++
						f.u.addFact(tb.Implies(c, tb.rawUlt(x, b)))
					}
				}
			}
			if v[i].Op == "ite" || isBaseRead(v[i]) {
				walk(tb.True(), v[i])
			}
		}
	}
}

// isBaseRead: a read of an uninterpreted base memory (initial, havocked by a call, havocked at a loop head)
func isBaseRead(x *Term) bool {
	for _, p := range []string{"uf:m0_", "uf:hv_", "uf:lp_", "uf:lpml_"} {
		if len(x.Op) > len(p) && x.Op[:len(p)] == p {
			return true
		}
	}
	return false
}

// refSlots lists the slot indices of a value of type t that hold object ids.
func refSlots(t types.Type) []int {
	var out []int
	i := 0
	var rec func(t types.Type)
	rec = func(t types.Type) {
		switch ut := t.Underlying().(type) {
		case *types.Basic:
			if ut.Kind() == types.UnsafePointer {
				out = append(out, i)
				i += 2
			} else if ut.Kind() == types.Complex128 || ut.Kind() == types.Complex64 {
				i += 2
			} else {
				i++
			}
		case *types.Pointer:
			out = append(out, i)
			i += 2
		case *types.Slice:
			out = append(out, i)
			i += 4
		case *types.Map, *types.Chan:
			out = append(out, i)
			i++
		case *types.Signature:
			out = append(out, i+1)
			i += 2
		case *types.Interface:
			out = append(out, i+1)
			i += 3
		case *types.Struct:
			for k := 0; k < ut.NumFields(); k++ {
				rec(ut.Field(k).Type())
			}
		case *types.Array:
			for k := int64(0); k < ut.Len(); k++ {
				rec(ut.Elem())
			}
		}
	}
	rec(t)
	return out
}

func hasRefs(t types.Type) bool {
	switch u := t.Underlying().(type) {
	case *types.Basic:
		return u.Kind() == types.UnsafePointer
	case *types.Struct:
		for i := 0; i < u.NumFields(); i++ {
			if hasRefs(u.Field(i).Type()) {
				return true
			}
		}
		return false
	case *types.Array:
		return hasRefs(u.Elem())
	}
	return true
}

func (f *Frame) indexAddr(x *ssa.IndexAddr) {
	tb := f.tb()
	L := f.u.W.layout
	base := f.val(x.X)
	idx := f.toInt64(f.val(x.Index)[0], x.Index.Type())
	switch t := x.X.Type().Underlying().(type) {
	case *types.Slice:
		f.oblig("nopanic:index", "index", tb.Ult(idx, base[2]), x.Pos(), "slice index out of range")
		es := L.Size(t.Elem())
		f.set(x, []*Term{base[0], tb.Add(base[1], tb.Mul(idx, tb.BV(64, es)))})
		// an element of a slice of structs is a struct of that type: it cannot overlap values of
		// unrelated types (the map header, say)
		if _, isStruct := t.Elem().Underlying().(*types.Struct); isStruct && !f.spec {
			pv := f.val(x)
			for _, fact := range f.u.registerPtr(t.Elem(), pv[0], pv[1]) {
				if !fact.hasBV {
					f.u.addFact(tb.Implies(f.cur.reach, fact))
				}
			}
		}
	case *types.Pointer:
		at := t.Elem().Underlying().(*types.Array)
		f.nonNil(base[0], "indexaddr", x.Pos())
		f.oblig("nopanic:index", "index", tb.Ult(idx, tb.BV(64, at.Len())), x.Pos(), "array index out of range")
		es := L.Size(at.Elem())
		f.set(x, []*Term{base[0], tb.Add(base[1], tb.Mul(idx, tb.BV(64, es)))})
	default:
		panic(unsupported("indexaddr on " + x.X.Type().String()))
	}
}

func (f *Frame) index(x *ssa.Index) {
	tb := f.tb()
	L := f.u.W.layout
	v := f.val(x.X)
	idx := f.toInt64(f.val(x.Index)[0], x.Index.Type())
	switch t := x.X.Type().Underlying().(type) {
	case *types.Array:
		es := L.Size(t.Elem())
		f.oblig("nopanic:index", "index", tb.Ult(idx, tb.BV(64, t.Len())), x.Pos(), "array index out of range")
		if c, ok := idx.ConstInt64(); ok && c >= 0 && c < t.Len() {
			f.set(x, v[c*es:(c+1)*es])
			return
		}
		res := make([]*Term, es)
		for s := int64(0); s < es; s++ {
			acc := v[(t.Len()-1)*es+s]
			for k := t.Len() - 2; k >= 0; k-- {
				acc = tb.Ite(tb.Eq(idx, tb.BV(64, k)), v[k*es+s], acc)
			}
			res[s] = acc
		}
		f.set(x, res)
	case *types.Basic: // string
		f.oblig("nopanic:index", "index", tb.Ult(idx, f.u.slen(v[0])), x.Pos(), "string index out of range")
		f.set(x, []*Term{tb.UF("sbyte", BV8, v[0], idx)})
	default:
		panic(unsupported("index on " + x.X.Type().String()))
	}
}

func (f *Frame) slice(x *ssa.Slice) {
	tb := f.tb()
	L := f.u.W.layout
	v := f.val(x.X)
	var lo, hi, max *Term
	if x.Low != nil {
		lo = f.toInt64(f.val(x.Low)[0], x.Low.Type())
	} else {
		lo = tb.BV(64, 0)
	}
	switch t := x.X.Type().Underlying().(type) {
	case *types.Slice:
		ln, cp := v[2], v[3]
		if x.High != nil {
			hi = f.toInt64(f.val(x.High)[0], x.High.Type())
		} else {
			hi = ln
		}
		if x.Max != nil {
			max = f.toInt64(f.val(x.Max)[0], x.Max.Type())
		} else {
			max = cp
		}
		// 0 <= lo <= hi <= max <= cap  (unsigned comparisons subsume the sign checks because cap is small)
		f.oblig("nopanic:slice", "slice", tb.And(tb.Ule(lo, hi), tb.Ule(hi, max), tb.Ule(max, cp)), x.Pos(), "slice bounds out of range")
		es := L.Size(t.Elem())
		f.set(x, []*Term{v[0], tb.Add(v[1], tb.Mul(lo, tb.BV(64, es))), tb.Sub(hi, lo), tb.Sub(max, lo)})
	case *types.Pointer:
		at := t.Elem().Underlying().(*types.Array)
		n := tb.BV(64, at.Len())
		if x.High != nil {
			hi = f.toInt64(f.val(x.High)[0], x.High.Type())
		} else {
			hi = n
		}
		if x.Max != nil {
			max = f.toInt64(f.val(x.Max)[0], x.Max.Type())
		} else {
			max = n
		}
		f.nonNil(v[0], "slice", x.Pos())
		f.oblig("nopanic:slice", "slice", tb.And(tb.Ule(lo, hi), tb.Ule(hi, max), tb.Ule(max, n)), x.Pos(), "slice bounds out of range")
		es := L.Size(at.Elem())
		f.set(x, []*Term{v[0], tb.Add(v[1], tb.Mul(lo, tb.BV(64, es))), tb.Sub(hi, lo), tb.Sub(max, lo)})
	case *types.Basic: // string
		ln := f.u.slen(v[0])
		if x.High != nil {
			hi = f.toInt64(f.val(x.High)[0], x.High.Type())
		} else {
			hi = ln
		}
		f.oblig("nopanic:slice", "slice", tb.And(tb.Ule(lo, hi), tb.Ule(hi, ln)), x.Pos(), "string slice bounds out of range")
		if lo.Op == "bv" && lo.Val.Sign() == 0 && hi == ln {
			f.set(x, v)
			return
		}
		r := tb.UF("ssub", StrSort, v[0], lo, hi)
		f.u.addFact(tb.Implies(tb.And(tb.Ule(lo, hi), tb.Ule(hi, ln)), tb.Eq(f.u.slen(r), tb.Sub(hi, lo))))
		f.u.substrs = append(f.u.substrs, substrRec{r, v[0], lo, hi})
		// a substring of constant length (at most 64): its bytes are those of the operand
		if d := tb.Sub(hi, lo); d.Op == "bv" && d.Val.IsInt64() && d.Val.Int64() > 0 && d.Val.Int64() <= 64 {
			inb := tb.And(tb.Ule(lo, hi), tb.Ule(hi, ln))
			for i := int64(0); i < d.Val.Int64(); i++ {
				f.u.addFact(tb.Implies(inb, tb.Eq(tb.UF("sbyte", BV8, r, tb.BV(64, i)), tb.UF("sbyte", BV8, v[0], tb.Add(lo, tb.BV(64, i))))))
			}
		}
		f.set(x, []*Term{r})
	default:
		panic(unsupported("slice of " + x.X.Type().String()))
	}
}

func (f *Frame) convert(x *ssa.Convert) {
	tb := f.tb()
	v := f.val(x.X)
	from, to := x.X.Type().Underlying(), x.Type().Underlying()
	fb, fok := from.(*types.Basic)
	tbb, tok := to.(*types.Basic)
	switch {
	case fok && tok && fb.Info()&types.IsInteger != 0 && tbb.Info()&types.IsInteger != 0:
		ts, _ := basicSort(tbb)
		if isSigned(from) {
			f.set(x, []*Term{tb.SExt(v[0], ts.W)})
		} else {
			f.set(x, []*Term{tb.ZExt(v[0], ts.W)})
		}
	case fok && tok && fb.Info()&types.IsInteger != 0 && tbb.Info()&types.IsFloat != 0:
		name := "i2f"
		if !isSigned(from) {
			name = "u2f"
		}
		f.set(x, []*Term{tb.UF(name, BV64, f.toInt64(v[0], from))})
	case fok && tok && fb.Info()&types.IsFloat != 0 && tbb.Info()&types.IsInteger != 0:
		ts, _ := basicSort(tbb)
		r := tb.UF("f2i", BV64, v[0])
		f.set(x, []*Term{tb.Extract(ts.W-1, 0, r)})
	case fok && tok && fb.Info()&types.IsFloat != 0 && tbb.Info()&types.IsFloat != 0:
		f.set(x, v)
	case fok && tok && fb.Kind() == types.UnsafePointer && tbb.Kind() == types.UnsafePointer:
		f.set(x, v)
	case tok && tbb.Kind() == types.UnsafePointer:
		f.set(x, v) // *T -> unsafe.Pointer
	case fok && fb.Kind() == types.UnsafePointer:
		if _, ok := to.(*types.Pointer); ok {
			f.set(x, v) // unsafe.Pointer -> *T ; the load/store decides how the slots are reinterpreted
			f.u.unsafeCasts[x] = f.unsafeOrigin(x.X)
			return
		}
		if tok && tbb.Kind() == types.Uintptr {
			// the numeric address of an object is not modelled: an opaque value that is zero exactly
			// for the nil pointer (never converted back: uintptr -> unsafe.Pointer stays unsupported)
			a := tb.UF("addrOf", BV64, v[0], v[1])
			f.u.addFact(tb.Eq(tb.Eq(a, tb.BV(64, 0)), tb.Eq(v[0], tb.BV(32, 0))))
			f.set(x, []*Term{a})
			return
		}
		panic(unsupported("conversion from unsafe.Pointer to " + x.Type().String()))
	case tok && tbb.Info()&types.IsString != 0:
		// []byte -> string / rune -> string
		if sl, ok := from.(*types.Slice); ok {
			if eb, ok := sl.Elem().Underlying().(*types.Basic); ok && eb.Kind() == types.Uint8 {
				r := f.u.fresh("b2s", StrSort)
				f.u.addFact(tb.Eq(f.u.slen(r), v[2]))
				mem := f.cur.mem
				if f.stub != nil && f.stub.oldLoads[x] {
					mem = f.stub.old
				}
				rec := b2sRec{r, mem.m[BV8.Key()], v[0], v[1], v[2]}
				if n, ok := v[2].ConstInt64(); ok && n <= 64 {
					// the bytes of the new string, and extensionality against the other strings
					// of the same length built this way (map keys made from hash arrays)
					var mine []*Term
					for i := int64(0); i < n; i++ {
						b := f.u.mc.Sel(rec.mem, v[0], tb.Add(v[1], tb.BV(64, i)))
						sb := tb.UF("sbyte", BV8, r, tb.BV(64, i))
						mine = append(mine, sb)
						if !b.hasBV {
							f.u.addFact(tb.Eq(sb, b))
						}
					}
					for _, o := range f.u.b2s {
						if on, ok := o.n.ConstInt64(); ok && on == n {
							var eqs []*Term
							for i := int64(0); i < n; i++ {
								eqs = append(eqs, tb.Eq(mine[i], tb.UF("sbyte", BV8, o.r, tb.BV(64, i))))
							}
							f.u.addFact(tb.Implies(tb.And(eqs...), tb.Eq(r, o.r)))
						}
					}
				}
				f.u.b2s = append(f.u.b2s, rec)
				f.set(x, []*Term{r})
				return
			}
		}
		panic(unsupported("conversion to string from " + x.X.Type().String()))
	case fok && fb.Info()&types.IsString != 0:
		if sl, ok := to.(*types.Slice); ok {
			if eb, ok := sl.Elem().Underlying().(*types.Basic); ok && eb.Kind() == types.Uint8 {
				obj := f.allocObj()
				n := f.u.slen(v[0])
				f.cur.mem = f.cur.mem.clone()
				k := BV8.Key()
				sb := f.u.mc.node(&MemNode{kind: mStrBytes, sort: BV8, val: v[0]})
				f.cur.mem.m[k] = f.u.mc.HavocRange(f.cur.mem.m[k], obj, tb.BV(64, 0), n, sb)
				f.set(x, []*Term{obj, tb.BV(64, 0), n, n})
				return
			}
		}
		panic(unsupported("conversion from string to " + x.Type().String()))
	default:
		panic(unsupported(fmt.Sprintf("convert %s -> %s", x.X.Type(), x.Type())))
	}
}

// reinterpretBytes recognises an access through *(*T)(unsafe.Pointer(p)) where p points to
// bytes and T is an integer type; it returns the number of bytes accessed.
func (f *Frame) reinterpretBytes(addr ssa.Value, vt types.Type) (int, bool) {
	c, ok := addr.(*ssa.Convert)
	if !ok {
		return 0, false
	}
	origin, ok := f.u.unsafeCasts[c]
	if !ok {
		return 0, false
	}
	if origin == nil {
		panic(unsupported("unsafe pointer cast of unknown origin in " + f.fn.String()))
	}
	target := c.Type().Underlying().(*types.Pointer).Elem()
	if types.Identical(origin.Underlying(), target.Underlying()) {
		return 0, false
	}
	ob, ok1 := origin.Underlying().(*types.Basic)
	tb2, ok2 := target.Underlying().(*types.Basic)
	if ok1 && ok2 && (ob.Kind() == types.Uint8 || ob.Kind() == types.Int8) && tb2.Info()&types.IsInteger != 0 {
		s, _ := basicSort(tb2)
		return s.W / 8, true
	}
	panic(unsupported("unsafe reinterpretation " + origin.String() + " -> " + target.String() + " in " + f.fn.String()))
}

// unsafeOrigin: element type of the pointer that was converted to unsafe.Pointer
func (f *Frame) unsafeOrigin(v ssa.Value) types.Type {
	for {
		switch c := v.(type) {
		case *ssa.Convert:
			if p, ok := c.X.Type().Underlying().(*types.Pointer); ok {
				return p.Elem()
			}
			v = c.X
		case *ssa.ChangeType:
			v = c.X
		default:
			return nil
		}
	}
}

func (f *Frame) binop(op token.Token, tx, ty types.Type, a, b []*Term, pos token.Pos, rt types.Type) []*Term {
	tb := f.tb()
	ux := tx.Underlying()
	switch op {
	case token.EQL, token.NEQ:
		r := f.equal(tx, ty, a, b)
		if op == token.NEQ {
			r = tb.Not(r)
		}
		return []*Term{r}
	}
	if bt, ok := ux.(*types.Basic); ok {
		info := bt.Info()
		switch {
		case info&types.IsString != 0:
			switch op {
			case token.ADD:
				r := tb.UF("sconcat", StrSort, a[0], b[0])
				f.u.addFact(tb.Eq(f.u.slen(r), tb.Add(f.u.slen(a[0]), f.u.slen(b[0]))))
				return []*Term{r}
			case token.LSS, token.GTR, token.LEQ, token.GEQ:
				return []*Term{f.u.strCompare(op, a[0], b[0])}
			}
		case info&types.IsFloat != 0:
			name := map[token.Token]string{token.ADD: "fadd", token.SUB: "fsub", token.MUL: "fmul", token.QUO: "fdiv",
				token.LSS: "flt", token.LEQ: "fle", token.GTR: "fgt", token.GEQ: "fge"}[op]
			if name == "" {
				panic(unsupported("float op " + op.String()))
			}
			if op == token.LSS || op == token.LEQ || op == token.GTR || op == token.GEQ {
				return []*Term{tb.UF(name, BoolSort, a[0], b[0])}
			}
			return []*Term{tb.UF(name, BV64, a[0], b[0])}
		case info&types.IsInteger != 0:
			x, y := a[0], b[0]
			signed := isSigned(tx)
			switch op {
			case token.ADD:
				return []*Term{tb.Add(x, y)}
			case token.SUB:
				return []*Term{tb.Sub(x, y)}
			case token.MUL:
				return []*Term{tb.Mul(x, y)}
			case token.QUO, token.REM:
				f.oblig("nopanic:div", "div", tb.Not(tb.Eq(y, tb.BV(y.Sort.W, 0))), pos, "division by zero")
				if signed {
					if op == token.QUO {
						return []*Term{tb.SDiv(x, y)}
					}
					return []*Term{tb.SRem(x, y)}
				}
				if op == token.QUO {
					return []*Term{tb.UDiv(x, y)}
				}
				return []*Term{tb.URem(x, y)}
			case token.AND:
				return []*Term{tb.BAnd(x, y)}
			case token.OR:
				return []*Term{tb.BOr(x, y)}
			case token.XOR:
				return []*Term{tb.BXor(x, y)}
			case token.AND_NOT:
				return []*Term{tb.BAnd(x, tb.BNot(y))}
			case token.SHL, token.SHR:
				// shift count: any integer type; negative signed count panics
				if isSigned(ty) {
					f.oblig("nopanic:shift", "shift", tb.Sle(tb.BV(y.Sort.W, 0), y), pos, "negative shift count")
				}
				w := x.Sort.W
				var cnt *Term
				if y.Sort.W > w {
					// count >= 2^w certainly >= w: saturate
					big := tb.Not(tb.Ult(y, tb.BV(y.Sort.W, int64(w))))
					cnt = tb.Ite(big, tb.BV(w, int64(w)), tb.Extract(w-1, 0, y))
				} else {
					cnt = tb.ZExt(y, w)
				}
				if op == token.SHL {
					return []*Term{tb.Shl(x, cnt)}
				}
				if signed {
					return []*Term{tb.AShr(x, cnt)}
				}
				return []*Term{tb.LShr(x, cnt)}
			case token.LSS:
				if signed {
					return []*Term{tb.Slt(x, y)}
				}
				return []*Term{tb.Ult(x, y)}
			case token.LEQ:
				if signed {
					return []*Term{tb.Sle(x, y)}
				}
				return []*Term{tb.Ule(x, y)}
			case token.GTR:
				if signed {
					return []*Term{tb.Slt(y, x)}
				}
				return []*Term{tb.Ult(y, x)}
			case token.GEQ:
				if signed {
					return []*Term{tb.Sle(y, x)}
				}
				return []*Term{tb.Ule(y, x)}
			}
		case info&types.IsBoolean != 0:
			switch op {
			case token.AND, token.LAND:
				return []*Term{tb.And(a[0], b[0])}
			case token.OR, token.LOR:
				return []*Term{tb.Or(a[0], b[0])}
			}
		}
	}
	panic(unsupported(fmt.Sprintf("binop %s on %s", op, tx)))
}

// equal implements Go's == on values of type tx / ty.
func (f *Frame) equal(tx, ty types.Type, a, b []*Term) *Term {
	tb := f.tb()
	_, xi := tx.Underlying().(*types.Interface)
	_, yi := ty.Underlying().(*types.Interface)
	if xi != yi {
		// mixed interface / concrete comparison: box the concrete side
		if xi {
			b = f.boxValue(ty, b)
		} else {
			a = f.boxValue(tx, a)
		}
	}
	if len(a) != len(b) {
		// comparison with untyped nil
		if isNilType(ty) {
			b = f.u.zero(tx)
		} else if isNilType(tx) {
			a = f.u.zero(ty)
		} else {
			panic(fmt.Sprintf("equal: slot count mismatch %s vs %s", tx, ty))
		}
	}
	switch tx.Underlying().(type) {
	case *types.Slice, *types.Map, *types.Signature:
		// only comparable to nil: compare the object id
		return tb.Eq(a[0], b[0])
	}
	if xi || yi {
		f.u.ifaceEqUsed = true
	}
	var cs []*Term
	for i := range a {
		if a[i].Sort.K == KBV && isFloatSlot(tx, i) {
			cs = append(cs, tb.UF("feq", BoolSort, a[i], b[i]))
			continue
		}
		if a[i].Sort.K == KStr {
			cs = append(cs, f.u.strEq(a[i], b[i]))
			continue
		}
		cs = append(cs, tb.Eq(a[i], b[i]))
	}
	return tb.And(cs...)
}

func isFloatSlot(t types.Type, i int) bool {
	if b, ok := t.Underlying().(*types.Basic); ok {
		return b.Info()&types.IsFloat != 0
	}
	return false
}

func isNilType(t types.Type) bool {
	b, ok := t.(*types.Basic)
	return ok && b.Kind() == types.UntypedNil
}

// strCompare models the lexicographic order through a rank function that is
// injective on the strings that are ever compared (any finite set of strings can
// be ranked consistently with the lexicographic order).
func (u *Unit) strCompare(op token.Token, a, b *Term) *Term {
	tb := u.tb
	ra := tb.UF("srank", BV64, a)
	rb := tb.UF("srank", BV64, b)
	u.addFact(tb.Implies(tb.Eq(ra, rb), tb.Eq(a, b)))
	switch op {
	case token.LSS:
		return tb.Ult(ra, rb)
	case token.LEQ:
		return tb.Ule(ra, rb)
	case token.GTR:
		return tb.Ult(rb, ra)
	default:
		return tb.Ule(rb, ra)
	}
}

// ------------------------------------------------------------------ interfaces

func pointerLike(t types.Type) bool {
	switch u := t.Underlying().(type) {
	case *types.Pointer:
		return true
	case *types.Basic:
		return u.Kind() == types.UnsafePointer
	}
	return false
}

func (f *Frame) boxValue(t types.Type, v []*Term) []*Term {
	tb := f.tb()
	if isNilType(t) {
		return []*Term{tb.BV(32, 0), tb.BV(32, 0), tb.BV(64, 0)}
	}
	tag := tb.BV(32, f.u.W.typeTag(t))
	if pointerLike(t) {
		return []*Term{tag, v[0], v[1]}
	}
	// small scalars are kept inline in the third slot; everything else is boxed
	if len(v) == 1 && v[0].Sort.K == KBV {
		return []*Term{tag, tb.BV(32, 0), tb.ZExt(v[0], 64)}
	}
	if len(v) == 1 && v[0].Sort.K == KBool {
		return []*Term{tag, tb.BV(32, 0), tb.Ite(v[0], tb.BV(64, 1), tb.BV(64, 0))}
	}
	obj := f.allocObj()
	f.storeTo(obj, tb.BV(64, 0), v)
	return []*Term{tag, obj, tb.BV(64, 0)}
}

func (f *Frame) unboxValue(t types.Type, iv []*Term) []*Term {
	tb := f.tb()
	if pointerLike(t) {
		return []*Term{iv[1], iv[2]}
	}
	ss := f.u.W.layout.Slots(t)
	if len(ss) == 1 && ss[0].K == KBV {
		return []*Term{tb.Extract(ss[0].W-1, 0, iv[2])}
	}
	if len(ss) == 1 && ss[0].K == KBool {
		return []*Term{tb.Not(tb.Eq(iv[2], tb.BV(64, 0)))}
	}
	return f.loadFrom(f.cur.mem, t, iv[1], iv[2])
}

func (f *Frame) makeInterface(x *ssa.MakeInterface) {
	if ghostArgOnly(x) {
		// an argument of a verif* intrinsic (verifSeparate(a, b), verifAssigns(...)): the intrinsic
		// looks through the conversion at the value itself, nothing is allocated for it
		tb := f.tb()
		f.set(x, []*Term{tb.BV(32, f.u.W.typeTag(x.X.Type())), tb.BV(32, 0), tb.BV(64, 0)})
		return
	}
	f.set(x, f.boxValue(x.X.Type(), f.val(x.X)))
	f.unfoldGhost(x.Type(), f.val(x))
}

// unfoldGhost: a spec block may define, for an interface type T, a bodyless ghost function
// verifX(T) together with verifXDef(T), whose body states verifX of a value in terms of verifX
// of the values it is built from (a definition by structural recursion). Whenever executable
// code builds a T or inspects the dynamic type of one, the instance verifX(v) == verifXDef(v)
// is added as a fact.
func (f *Frame) unfoldGhost(t types.Type, v []*Term) {
	if f.spec {
		return
	}
	if _, isIface := t.Underlying().(*types.Interface); !isIface {
		return
	}
	for _, uf := range f.u.W.unfoldsFor(t) {
		tb := f.tb()
		lhs := f.callFunc(uf[0], [][]*Term{v}, nil, nil, uf[0].Signature.Results().At(0).Type())
		sub := &Frame{u: f.u, fn: uf[1], vals: map[ssa.Value][]*Term{}, spec: true, depth: f.depth + 1, inl: f.inl}
		sub.set(uf[1].Params[0], v)
		rhs, _ := sub.run(BState{reach: tb.True(), mem: f.cur.mem})
		if len(lhs) == len(rhs) {
			for i := range lhs {
				f.u.addFact(tb.Implies(f.cur.reach, tb.Eq(lhs[i], rhs[i])))
			}
			f.u.Trusted["ghost function "+uf[0].Name()+" is defined by structural recursion through "+uf[1].Name()] = true
		}
	}
}

// ghostArgOnly: the interface value is only stored into the argument array of a variadic call
// of a verif* intrinsic (or passed to one directly).
func ghostArgOnly(x *ssa.MakeInterface) bool {
	refs := x.Referrers()
	if refs == nil || len(*refs) == 0 {
		return false
	}
	isVerifCall := func(c *ssa.Call) bool {
		fn, ok := c.Call.Value.(*ssa.Function)
		if !ok {
			return false
		}
		name := fn.Name()
		if o := fn.Origin(); o != nil {
			name = o.Name()
		}
		switch name {
		case "verifAssigns", "verifFresh", "verifDisjoint", "verifSameSlice", "verifSeparate", "verifUnchanged":
			return true
		}
		return false
	}
	for _, r := range *refs {
		switch u := r.(type) {
		case *ssa.DebugRef:
		case *ssa.Call:
			if !isVerifCall(u) {
				return false
			}
		case *ssa.Store:
			ia, ok := u.Addr.(*ssa.IndexAddr)
			if !ok || u.Val != x {
				return false
			}
			al, ok := ia.X.(*ssa.Alloc)
			if !ok {
				return false
			}
			// the array is sliced and the slice handed to a verif* call, nothing else
			okUse := false
			for _, ar := range *al.Referrers() {
				switch v := ar.(type) {
				case *ssa.IndexAddr, *ssa.DebugRef:
				case *ssa.Slice:
					for _, sr := range *v.Referrers() {
						if c, isCall := sr.(*ssa.Call); isCall && isVerifCall(c) {
							okUse = true
						} else if _, isDbg := sr.(*ssa.DebugRef); !isDbg {
							return false
						}
					}
				default:
					return false
				}
			}
			if !okUse {
				return false
			}
		default:
			return false
		}
	}
	return true
}

func (f *Frame) typeAssert(x *ssa.TypeAssert) {
	tb := f.tb()
	iv := f.val(x.X)
	f.unfoldGhost(x.X.Type(), iv)
	if _, isIface := x.AssertedType.Underlying().(*types.Interface); isIface {
		// interface-to-interface assertion: succeeds iff the dynamic type implements it
		ok := f.implementsTerm(iv[0], x.AssertedType)
		if x.CommaOk {
			res := make([]*Term, 3)
			for i := range res {
				res[i] = tb.Ite(ok, iv[i], f.u.zero(x.AssertedType)[i])
			}
			f.set(x, append(res, ok))
		} else {
			f.oblig("nopanic:assert", "typeassert", ok, x.Pos(), "interface conversion fails")
			f.set(x, iv)
		}
		return
	}
	ok := tb.Eq(iv[0], tb.BV(32, f.u.W.typeTag(x.AssertedType)))
	val := f.unboxValue(x.AssertedType, iv)
	if x.CommaOk {
		z := f.u.zero(x.AssertedType)
		res := make([]*Term, len(val))
		for i := range val {
			res[i] = tb.Ite(ok, val[i], z[i])
		}
		f.set(x, append(res, ok))
	} else {
		f.oblig("nopanic:assert", "typeassert", ok, x.Pos(), "type assertion fails")
		f.set(x, val)
	}
}

// implementsTerm: tag belongs to a type (known to the world) that implements iface
func (f *Frame) implementsTerm(tag *Term, iface types.Type) *Term {
	tb := f.tb()
	it := iface.Underlying().(*types.Interface)
	if it.NumMethods() == 0 {
		return tb.Not(tb.Eq(tag, tb.BV(32, 0)))
	}
	r := tb.UF("implements!"+types.TypeString(iface, nil), BoolSort, tag)
	f.u.addFact(tb.Not(tb.UF("implements!"+types.TypeString(iface, nil), BoolSort, tb.BV(32, 0))))
	return r
}

// recvOnlySelect: every case of the select is a receive (a default case has no state entry).
func recvOnlySelect(x *ssa.Select) bool {
	for _, st := range x.States {
		if st.Dir != types.RecvOnly {
			return false
		}
	}
	return true
}
