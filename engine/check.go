package main

import (
	"encoding/json"
	"flag"
	"fmt"
	"os"
	"path/filepath"
	"regexp"
	"sort"
	"strconv"
	"strings"
	"time"
)

type KnownFinding struct {
	Property    string `json:"property"`
	Status      string `json:"status"` // known | fixed
	Obligation  string `json:"obligation"`
	Config      string `json:"config,omitempty"`
	Description string `json:"description"`
	Commit      string `json:"commit,omitempty"`
	Finding     string `json:"finding,omitempty"`
}

type PropSpec struct {
	Configs       []BuildConfig `json:"configs,omitempty"`        // quick tier
	ThoroughExtra []BuildConfig `json:"thorough_configs,omitempty"` // additional configurations in the thorough tier
	Level         string        `json:"level,omitempty"`
	Uncovered     []string      `json:"uncovered,omitempty"`
	Assumptions   []string      `json:"assumptions,omitempty"`
}

type Ledger map[string][]string // property -> obligation names ("config|name")

func loadJSON(path string, v any) error {
	data, err := os.ReadFile(path)
	if err != nil {
		return err
	}
	return json.Unmarshal(data, v)
}

type oblEvidence struct {
	Name    string `json:"name"`
	Class   string `json:"class"`
	Config  string `json:"config"`
	Status  string `json:"status"`
	Solver  string `json:"solver"`
	Ms      int64  `json:"ms"`
	VCBytes int    `json:"vc_bytes"`
}

var fileSan = regexp.MustCompile(`[^A-Za-z0-9_.#@\[\]$-]`)

func cmdCheck(args []string) int {
	fs := flag.NewFlagSet("check", flag.ExitOnError)
	repo := fs.String("repo", "/repo", "")
	vdir := fs.String("verif", "/verif", "")
	prop := fs.String("prop", "", "")
	thorough := fs.Bool("thorough", false, "")
	updateLedger := fs.Bool("update-ledger", false, "")
	replayPath := fs.String("replay", "", "")
	fs.Parse(args)
	if *prop == "" {
		fmt.Fprintln(os.Stderr, "check: --prop required")
		return 2
	}
	if *replayPath != "" {
		return cmdReplay(*repo, *replayPath)
	}
	start := time.Now()
	tier := "quick"
	timeoutS := 30
	if *thorough {
		tier = "thorough"
		timeoutS = 120
	}
	seed := 0
	if s := os.Getenv("VERIF_SEED"); s != "" {
		seed, _ = strconv.Atoi(s)
	}
	var specs map[string]PropSpec
	loadJSON(filepath.Join(*vdir, "contracts", "props.json"), &specs)
	spec := specs[*prop]
	configs := spec.Configs
	if len(configs) == 0 {
		configs = []BuildConfig{defaultConfig()}
	}
	if *thorough {
		configs = append(configs, spec.ThoroughExtra...)
	}
	var known []KnownFinding
	loadJSON(filepath.Join(*vdir, "known_findings.json"), &known)
	ledger := Ledger{}
	loadJSON(filepath.Join(*vdir, "contracts", "ledger.json"), &ledger)

	scratch, _ := os.MkdirTemp("", "gpv-"+*prop+"-")
	defer os.RemoveAll(scratch)
	replayDir := filepath.Join(*vdir, "replay", *prop)
	os.RemoveAll(replayDir)

	var obls []oblEvidence
	var violations []string
	var knownLines []string
	trusted := map[string]bool{}
	notes := map[string]bool{}
	funcs := map[string]bool{}
	seenNames := map[string]bool{}
	nObl, nDis, nCover, nKnown := 0, 0, 0, 0
	var solverS float64
	nCoverUnknown := 0
	nReplays, maxReplays := 0, 4
	if *thorough {
		maxReplays = 16
	}
	var samples []any
	var loadS, encS float64
	violate := func(name, cfg string, r *Result, u *Unit, reason string, w *World) {
		// known finding?
		for _, k := range known {
			if k.Property == *prop && k.Status == "known" && k.Obligation == name && (k.Config == "" || k.Config == cfg) {
				knownLines = append(knownLines, fmt.Sprintf("KNOWN-FINDING: property=%s %s [%s] %s", *prop, name, k.Finding, k.Description))
				nKnown++
				return
			}
		}
		os.MkdirAll(replayDir, 0o755)
		rp := filepath.Join(replayDir, fileSan.ReplaceAllString(cfg+"_"+name, "_")+".json")
		var rep *ReplayFile
		if nReplays >= maxReplays {
			rep = buildReplay(*repo, *prop, cfg, name, r, nil, reason, nil, scratch)
			rep.Note = fmt.Sprintf("replay budget of this run (%d executed replays) exhausted; use --replay on this file's obligation after fixing the earlier ones, or run the thorough tier", maxReplays)
		} else {
			rep = buildReplay(*repo, *prop, cfg, name, r, u, reason, w, scratch)
			if rep.TestSource != "" {
				nReplays++
			}
		}
		writeJSON(rp, rep)
		line := fmt.Sprintf("VIOLATION property=%s replay=%s", *prop, rp)
		if !rep.Confirmed {
			line += " no-failing-input-found"
		}
		violations = append(violations, line)
		fmt.Printf("  failed obligation: %s [%s] %s\n", name, cfg, reason)
	}
	for _, cfg := range configs {
		out, err := runProperty(*repo, *prop, cfg, timeoutS, filepath.Join(scratch, cfg.Name), "", *thorough || *updateLedger)
		if err != nil {
			name := "load:" + cfg.Name
			violate(name, cfg.Name, nil, nil, "contracts or code no longer load: "+err.Error(), nil)
			nObl++
			continue
		}
		loadS += out.LoadS
		encS += out.EncodeS
		solverS += out.SolveS
		for _, u := range out.Units {
			funcs[u.Name] = true
			for t := range u.Trusted {
				trusted[t] = true
			}
			for _, n := range u.Notes {
				notes[n] = true
			}
			lk := cfg.Name
			if u.Contract != nil && u.Contract.Flags["thorough"] {
				lk += "+thorough"
			}
			if u.Failed != "" {
				nObl++
				seenNames[lk+"|"+u.Name+"#encode"] = true
				violate(u.Name+"#encode", cfg.Name, nil, u, "unit cannot be encoded: "+u.Failed, out.World)
			} else {
				seenNames[lk+"|"+u.Name+"#encode"] = true
			}
		}
		for _, r := range out.Results {
			if ledgerPinned(r.Obl.Name) { // only obligations that stem from the contract text are pinned
				lk := cfg.Name
				if r.Unit.Contract != nil && r.Unit.Contract.Flags["thorough"] {
					lk += "+thorough"
				}
				seenNames[lk+"|"+ledgerKey(r.Obl.Name)] = true
			}
			oe := oblEvidence{Name: r.Obl.Name, Class: r.Obl.Class, Config: cfg.Name, Status: r.Status, Solver: r.Solver, Ms: r.Ms, VCBytes: r.VCBytes}
			obls = append(obls, oe)
			if r.Obl.IsCover {
				nCover++
				if r.Status == "cover-unknown" {
					nCoverUnknown++
					notes["vacuity guard "+r.Obl.Name+" undecided within the time limit ("+r.Answer+")"] = true
				}
				if r.Status == "cover-failed" {
					violate(r.Obl.Name, cfg.Name, r, r.Unit, "vacuity guard: the assumptions of this unit are not satisfiable ("+r.Answer+")", out.World)
				}
				continue
			}
			nObl++
			if r.Status == "discharged" {
				nDis++
				if len(samples) < 4 && r.Answer == "unsat" {
					samples = append(samples, map[string]any{"obligation": r.Obl.Name, "class": r.Obl.Class, "solver": r.Solver, "ms": r.Ms, "vc_bytes": r.VCBytes, "at": fmt.Sprintf("%s:%d", filepath.Base(r.Obl.Pos.Filename), r.Obl.Pos.Line)})
				}
				continue
			}
			before := nKnown
			violate(r.Obl.Name, cfg.Name, r, r.Unit, fmt.Sprintf("%s (solver answer: %s) at %s:%d", r.Obl.Detail, r.Answer, r.Obl.Pos.Filename, r.Obl.Pos.Line), out.World)
			if nKnown > before {
				nObl-- // known findings are reported separately, not counted as obligations of the claim
			}
		}
	}
	// ledger
	var names []string
	for n := range seenNames {
		names = append(names, n)
	}
	sort.Strings(names)
	if *updateLedger {
		ledger[*prop] = names
		writeJSON(filepath.Join(*vdir, "contracts", "ledger.json"), ledger)
		fmt.Printf("ledger updated: %d names for %s\n", len(names), *prop)
	} else if !*thorough || true {
		want := ledger[*prop]
		if len(want) == 0 {
			nObl++
			violate("ledger:missing", "-", nil, nil, "no ledger entry for this property (zero expected obligations)", nil)
		}
		for _, n := range want {
			cfgName := strings.SplitN(n, "|", 2)[0]
			inRun := false
			for _, c := range configs {
				if c.Name == cfgName || *thorough && c.Name+"+thorough" == cfgName {
					inRun = true
				}
			}
			if !inRun {
				continue
			}
			if !ledgerPinned(n) {
				continue // entry written by an earlier version of the ledger
			}
			if !seenNames[ledgerKey(n)] {
				nObl++
				parts := strings.SplitN(n, "|", 2)
				violate(parts[1], parts[0], nil, nil, "obligation listed in the ledger was not generated (contract no longer binds, function or loop vanished)", nil)
			}
		}
	}
	for _, l := range knownLines {
		fmt.Println(l)
	}
	for _, v := range violations {
		fmt.Println(v)
	}
	// evidence
	var tl, nl, fl []string
	for t := range trusted {
		tl = append(tl, t)
	}
	sort.Strings(tl)
	for n := range notes {
		nl = append(nl, n)
	}
	sort.Strings(nl)
	for f := range funcs {
		fl = append(fl, f)
	}
	sort.Strings(fl)
	baseTrusted := []string{
		"go/types + go/ssa (x/tools v0.29.0) represent /repo's source faithfully",
		"gpverify's SSA->SMT encoding (DESIGN.md section 3): bit-precise integers, (object,offset) memory, amd64",
		"SMT solvers z3 5.1.0 / z3 4.8.12 / cvc5 1.0.3 (an unsat from any one is accepted)",
		"Go memory safety outside unsafe; allocation sizes and offsets below 2^40 slots",
	}
	assumptions := append([]string{}, spec.Assumptions...)
	for _, n := range nl {
		assumptions = append(assumptions, "unmodelled: "+n)
	}
	for _, u := range spec.Uncovered {
		assumptions = append(assumptions, "not covered by this check: "+u)
	}
	if len(samples) == 0 && len(obls) > 0 {
		samples = append(samples, obls[0])
	}
	ev := map[string]any{
		"property_id": *prop,
		"tier":        tier,
		"seed":        seed,
		"level":       "proof",
		"coverage": map[string]any{
			"obligations":                nObl,
			"discharged":                 nDis,
			"checker_cmd":                fmt.Sprintf("/verif/bin/gpverify check --prop %s%s  (per obligation: z3-new -smt2 | cvc5 | z3 -smt2)", *prop, map[bool]string{true: " --thorough", false: ""}[*thorough]),
			"trusted_base":               append(baseTrusted, tl...),
			"samples":                    samples,
			"functions_under_contract":   fl,
			"covers_checked":             nCover,
			"covers_undecided":           nCoverUnknown,
			"known_finding_obligations":  nKnown,
			"configurations":             configs,
			"per_obligation":             obls,
			"solver_wall_s":              solverS,
			"load_s":                     loadS,
			"encode_s":                   encS,
			"integers":                   "64/32/16/8-bit bit-vectors with Go wrap-around semantics (nothing is a mathematical integer)",
			"obligation_timeout_s":       timeoutS,
			"uncovered_parts":            spec.Uncovered,
		},
		"assumptions": assumptions,
		"wall_s":      time.Since(start).Seconds(),
		"violations":  len(violations),
	}
	writeJSON(filepath.Join(*vdir, "evidence", *prop+".json"), ev)
	fmt.Printf("%s %s: %d obligations, %d discharged, %d covers, %d known findings, %d violations (load %.1fs, encode %.1fs, solve %.1fs)\n",
		*prop, tier, nObl, nDis, nCover, nKnown, len(violations), loadS, encS, solverS)
	if len(violations) > 0 {
		return 1
	}
	return 0
}

// ledgerPinned: the ledger pins the obligations that stem from the contract text
// (postconditions, lemma assertions, written loop invariants, vacuity covers, "unit encodes").
// Obligations that stem from the body under contract — one per index, slice, dereference,
// division, store or call site — legitimately come and go with harmless edits of the code;
// every one that is generated must still be discharged, but none is required to exist.
func ledgerPinned(name string) bool {
	if strings.Contains(name, "/auto:") {
		return false
	}
	for _, k := range []string{"#nopanic:", "#frame", "#pre@"} {
		if strings.Contains(name, k) {
			return false
		}
	}
	return true
}

// ledgerKey: the name under which an obligation is pinned. A written loop invariant produces one
// inv-step obligation per back edge (and invariant) of the loop; how many back edges a loop has
// changes with harmless restructuring of its body (merged continue statements), so what is
// pinned is "the loop's invariant is checked at its back edges", not each edge.
var invStepIdx = regexp.MustCompile(`(#inv-step@(?:.*/)?loop\d+)\[\d+\]$`)

func ledgerKey(name string) string {
	return invStepIdx.ReplaceAllString(name, "$1")
}
