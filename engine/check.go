package main

func cmdCheck(args []string) int { return 0 }
