package main

// Replay: turn a solver model into concrete Go inputs, generate an in-package
// test that runs the real function (or the lemma harness) on them and evaluates
// the violated clause in Go, inject it with `go test -overlay`, and record the
// outcome. The replay never changes the verdict of a check; it only decides
// whether the VIOLATION line carries "no-failing-input-found".

import (
	"bytes"
	"context"
	"encoding/json"
	"fmt"
	"go/types"
	"math/big"
	"os"
	"os/exec"
	"path/filepath"
	"regexp"
	"sort"
	"strings"
	"time"

	"golang.org/x/tools/go/ssa"
)

type ReplayFile struct {
	Property     string            `json:"property"`
	Obligation   string            `json:"obligation"`
	Config       string            `json:"config"`
	Reason       string            `json:"reason"`
	Solver       string            `json:"solver,omitempty"`
	Answer       string            `json:"answer,omitempty"`
	SolverOutput string            `json:"solver_output,omitempty"`
	Model        map[string]string `json:"model,omitempty"`
	Inputs       []string          `json:"inputs,omitempty"`
	PkgDir       string            `json:"pkg_dir,omitempty"`
	Tags         []string          `json:"tags,omitempty"`
	Cgo          bool              `json:"cgo"`
	TestSource   string            `json:"test_source,omitempty"`
	ReplayOutput string            `json:"replay_output,omitempty"`
	Confirmed    bool              `json:"confirmed"`
	Note         string            `json:"note,omitempty"`
	Position     string            `json:"position,omitempty"`
}

const runtimeIntrinsics = `
type verifAssumeFailed struct{}
type verifAssertFailed struct{ n int }

var (
	verifPhase      int // 0 = pre-state pass, 1 = post-state pass
	verifReqFailed  []int
	verifEnsFailed  []int
	verifReqN       int
	verifEnsN       int
	verifAssertN    int
	verifOlds       = map[string][]any{}
	verifOldIdx     = map[string]int{}
	verifOldMissing bool
)

func verifRequires(b bool) {
	verifReqN++
	if verifPhase == 0 && !b {
		verifReqFailed = append(verifReqFailed, verifReqN)
	}
}
func verifEnsures(b bool) {
	verifEnsN++
	if verifPhase == 1 && !b {
		verifEnsFailed = append(verifEnsFailed, verifEnsN)
	}
}
func verifInvariant(b bool) {}
func verifAssume(b bool) {
	if !b {
		panic(verifAssumeFailed{})
	}
}
func verifAssert(b bool) {
	verifAssertN++
	if !b {
		panic(verifAssertFailed{verifAssertN})
	}
}
func verifPost()           {}
func verifDecreases(x int) {}
func verifCopy(v reflect.Value) reflect.Value {
	if v.Kind() == reflect.Slice && !v.IsNil() {
		c := reflect.MakeSlice(v.Type(), v.Len(), v.Len())
		reflect.Copy(c, v)
		return c
	}
	return v
}
func verifOldAt[T any](site string, x T) T {
	if verifPhase == 0 {
		verifOlds[site] = append(verifOlds[site], verifCopy(reflect.ValueOf(&x).Elem()).Interface())
		return x
	}
	i := verifOldIdx[site]
	verifOldIdx[site] = i + 1
	if i >= len(verifOlds[site]) {
		verifOldMissing = true
		return x
	}
	v, ok := verifOlds[site][i].(T)
	if !ok {
		verifOldMissing = true
		return x
	}
	return v
}
func verifForall(lo, hi int, f func(i int) bool) bool {
	for i := lo; i < hi; i++ {
		if !f(i) {
			return false
		}
	}
	return true
}
func verifExists(lo, hi int, f func(i int) bool) bool {
	for i := lo; i < hi; i++ {
		if f(i) {
			return true
		}
	}
	return false
}
func verifAssigns(ps ...any)          {}
func verifFresh(ps ...any) bool       { return true }
func verifDisjoint(a, b any) bool     { return true }
func verifSeparate(a, b any) bool     { return true }
func verifSameSlice(a, b any) bool {
	x, y := reflect.ValueOf(a), reflect.ValueOf(b)
	if x.Kind() != reflect.Slice || y.Kind() != reflect.Slice {
		return false
	}
	return x.Pointer() == y.Pointer()
}
func verifUnchanged(ps ...any) bool   { return true }
func verifIte[T any](c bool, a, b T) T {
	if c {
		return a
	}
	return b
}
func verifAny[T any]() (x T) { return }

// time.Time with the given representation (wall, ext) and a location that is
// distinct per model object id (0 = nil location = UTC)
func verifMkTime(wall uint64, ext int64, loc int) time.Time {
	type mirror struct {
		wall uint64
		ext  int64
		loc  *time.Location
	}
	var t time.Time
	m := (*mirror)(unsafe.Pointer(&t))
	m.wall, m.ext = wall, ext
	if loc != 0 {
		m.loc = time.FixedZone(fmt.Sprintf("Z%d", loc), (loc%23+1)*3600)
	}
	return t
}

func verifMkAddr(hi, lo uint64, z int) netip.Addr {
	if z == 0 {
		return netip.Addr{}
	}
	var b [16]byte
	for i := 0; i < 8; i++ {
		b[i] = byte(hi >> (56 - 8*i))
		b[8+i] = byte(lo >> (56 - 8*i))
	}
	if hi == 0 && lo>>32 == 0xffff {
		return netip.AddrFrom4([4]byte{b[12], b[13], b[14], b[15]})
	}
	return netip.AddrFrom16(b)
}
`

func parseBV(s string) (*big.Int, bool) {
	v := new(big.Int)
	switch {
	case strings.HasPrefix(s, "#x"):
		_, ok := v.SetString(s[2:], 16)
		return v, ok
	case strings.HasPrefix(s, "#b"):
		_, ok := v.SetString(s[2:], 2)
		return v, ok
	case s == "true":
		return big.NewInt(1), true
	case s == "false":
		return big.NewInt(0), true
	}
	return nil, false
}

func buildAsserts(u *Unit, o *Obligation) []*Term {
	tb := u.tb
	asserts := append(append([]*Term{}, u.axioms...), u.facts[:o.NFacts]...)
	asserts = append(asserts, o.Cond)
	if !o.IsCover {
		asserts = append(asserts, tb.Not(o.Prop))
	}
	return asserts
}

// evalTerms re-solves the obligation with pins and asks for the values of terms.
func evalTerms(u *Unit, o *Obligation, pins map[*Term]*big.Int, terms []*Term, scratch string) (map[int]*big.Int, bool) {
	tb := u.tb
	asserts := buildAsserts(u, o)
	if u.failAsserts != nil && u.failAsserts[o] != nil {
		// the (case-split, pruned) query that the solver found satisfiable
		asserts = append([]*Term{}, u.failAsserts[o]...)
	}
	for t, v := range pins {
		switch t.Sort.K {
		case KBV:
			asserts = append(asserts, tb.Eq(t, tb.BVBig(t.Sort.W, v)))
		case KBool:
			asserts = append(asserts, tb.Eq(t, tb.Bool(v.Sign() != 0)))
		}
	}
	p := NewPrinter(tb)
	script := p.Script(asserts, terms, "")
	path := filepath.Join(scratch, fmt.Sprintf("replay-%d.smt2", time.Now().UnixNano()))
	os.WriteFile(path, []byte(script), 0o644)
	defer os.Remove(path)
	ctx, cancel := context.WithTimeout(context.Background(), 60*time.Second)
	defer cancel()
	ans, out, _ := runOne(ctx, SolverSpec{"z3-5.1.0", []string{"z3-new", "-T:60", "-smt2"}}, path)
	if ans != "sat" {
		return nil, false
	}
	// values come back in order inside one (get-value) answer: ((t1 v1) (t2 v2) ...)
	res := map[int]*big.Int{}
	vals := regexp.MustCompile(`(#x[0-9a-fA-F]+|#b[01]+|\btrue\b|\bfalse\b)\s*\)`).FindAllStringSubmatch(out, -1)
	// robust parse: walk the output and take the last literal of each top-level pair
	lits := extractPairValues(out)
	if len(lits) != len(terms) {
		_ = vals
		return nil, false
	}
	for i, t := range terms {
		v, ok := parseBV(lits[i])
		if !ok {
			return nil, false
		}
		res[t.id] = v
	}
	return res, true
}

// extractPairValues parses "((e1 v1)\n (e2 v2) ...)" and returns v1, v2, ...
func extractPairValues(out string) []string {
	i := strings.Index(out, "((")
	if i < 0 {
		return nil
	}
	s := out[i+1:]
	var res []string
	depth := 0
	start := -1
	for k := 0; k < len(s); k++ {
		switch s[k] {
		case '(':
			if depth == 0 {
				start = k
			}
			depth++
		case ')':
			depth--
			if depth == 0 && start >= 0 {
				pair := strings.TrimSpace(s[start+1 : k])
				// value = last token
				j := strings.LastIndexAny(pair, " \n\t")
				if j >= 0 {
					res = append(res, strings.TrimSpace(pair[j+1:]))
				}
				start = -1
			}
			if depth < 0 {
				return res
			}
		case '|':
			k++
			for k < len(s) && s[k] != '|' {
				k++
			}
		}
	}
	return res
}

type valueBuilder struct {
	u       *Unit
	o       *Obligation
	scratch string
	pins    map[*Term]*big.Int
	pkg     *types.Package
	imports map[string]string // path -> name
	decls   []string
	nvar    int
	backing map[string]string // obj value -> backing variable (per elem type)
	err     error
	reads   int
}

func (vb *valueBuilder) qual(p *types.Package) string {
	if p == vb.pkg {
		return ""
	}
	vb.imports[p.Path()] = p.Name()
	return p.Name()
}

func (vb *valueBuilder) typeStr(t types.Type) string { return types.TypeString(t, vb.qual) }

// read evaluates terms under the current pins (and pins the results)
func (vb *valueBuilder) read(terms []*Term) []*big.Int {
	if vb.err != nil {
		return nil
	}
	var need []*Term
	for _, t := range terms {
		if _, ok := vb.pins[t]; !ok && !t.IsConst() && t.Sort.K != KStr {
			need = append(need, t)
		}
	}
	if len(need) > 0 {
		vb.reads++
		if vb.reads > 40 {
			vb.err = fmt.Errorf("too many model queries")
			return nil
		}
		vals, ok := evalTerms(vb.u, vb.o, vb.pins, need, vb.scratch)
		if !ok {
			vb.err = fmt.Errorf("the solver did not return a model for the memory contents")
			return nil
		}
		for _, t := range need {
			vb.pins[t] = vals[t.id]
		}
	}
	out := make([]*big.Int, len(terms))
	for i, t := range terms {
		if t.IsConst() {
			if t.Op == "bv" {
				out[i] = t.Val
			} else if t.IsTrue() {
				out[i] = big.NewInt(1)
			} else {
				out[i] = big.NewInt(0)
			}
		} else {
			out[i] = vb.pins[t]
		}
	}
	return out
}

func signedOf(v *big.Int, w int) *big.Int {
	x := new(big.Int).Set(v)
	if x.Bit(w-1) == 1 {
		x.Sub(x, new(big.Int).Lsh(big.NewInt(1), uint(w)))
	}
	return x
}

// memTerms: the slot terms of a value of type t at concrete address (obj, off) in M0
func (vb *valueBuilder) memTerms(t types.Type, obj, off *big.Int) []*Term {
	u := vb.u
	ss := u.W.layout.Slots(t)
	out := make([]*Term, len(ss))
	for i, s := range ss {
		o := new(big.Int).Add(off, big.NewInt(int64(i)))
		out[i] = u.mc.Sel(u.oldMem.m[s.Key()], u.tb.BVBig(32, obj), u.tb.BVBig(64, o))
	}
	return out
}

// goValue renders the Go expression of a value of type t whose slots are given as terms.
func (vb *valueBuilder) goValue(t types.Type, slots []*Term, depth int) string {
	if vb.err != nil {
		return "nil"
	}
	if depth > 6 {
		vb.err = fmt.Errorf("input nesting too deep")
		return "nil"
	}
	L := vb.u.W.layout
	switch ut := t.Underlying().(type) {
	case *types.Basic:
		info := ut.Info()
		switch {
		case info&types.IsBoolean != 0:
			v := vb.read(slots[:1])
			if vb.err != nil {
				return "false"
			}
			if v[0].Sign() != 0 {
				return vb.typeStr(t) + "(true)"
			}
			return vb.typeStr(t) + "(false)"
		case info&types.IsInteger != 0:
			v := vb.read(slots[:1])
			if vb.err != nil {
				return "0"
			}
			if isSigned(t) {
				return fmt.Sprintf("%s(%s)", vb.typeStr(t), signedOf(v[0], slots[0].Sort.W).String())
			}
			return fmt.Sprintf("%s(%s)", vb.typeStr(t), v[0].String())
		case info&types.IsString != 0:
			// length and bytes through slen / sbyte
			ln := vb.read([]*Term{vb.u.slen(slots[0])})
			if vb.err != nil {
				return `""`
			}
			n := ln[0].Int64()
			if !ln[0].IsInt64() || n > 4096 {
				vb.err = fmt.Errorf("model string too long (%s)", ln[0])
				return `""`
			}
			var bs []*Term
			for i := int64(0); i < n; i++ {
				bs = append(bs, vb.u.tb.UF("sbyte", BV8, slots[0], vb.u.tb.BV(64, i)))
			}
			vals := vb.read(bs)
			if vb.err != nil {
				return `""`
			}
			b := make([]byte, n)
			for i := range b {
				b[i] = byte(vals[i].Int64())
			}
			return fmt.Sprintf("%s(%q)", vb.typeStr(t), string(b))
		}
		vb.err = fmt.Errorf("cannot build input of type %s", t)
		return "nil"
	case *types.Array:
		es := L.Size(ut.Elem())
		var parts []string
		for i := int64(0); i < ut.Len(); i++ {
			parts = append(parts, vb.goValue(ut.Elem(), slots[i*es:(i+1)*es], depth+1))
		}
		return vb.typeStr(t) + "{" + strings.Join(parts, ", ") + "}"
	case *types.Struct:
		if n, ok := t.(*types.Named); ok && n.Obj().Pkg() != nil {
			switch n.Obj().Pkg().Path() + "." + n.Obj().Name() {
			case "time.Time":
				v := vb.read(slots[:3])
				if vb.err != nil {
					return "time.Time{}"
				}
				vb.imports["time"] = "time"
				return fmt.Sprintf("verifMkTime(%s, %s, %s)", v[0], signedOf(v[1], 64), v[2])
			case "net/netip.Addr":
				v := vb.read(slots[:3])
				if vb.err != nil {
					return "netip.Addr{}"
				}
				vb.imports["net/netip"] = "netip"
				return fmt.Sprintf("verifMkAddr(%s, %s, %s)", v[0], v[1], v[2])
			}
		}
		var parts []string
		o := int64(0)
		for i := 0; i < ut.NumFields(); i++ {
			fld := ut.Field(i)
			n := L.Size(fld.Type())
			if !fld.Exported() && fld.Pkg() != vb.pkg {
				// cannot set foreign unexported fields: leave zero (only acceptable if the model says zero)
				o += n
				continue
			}
			parts = append(parts, fld.Name()+": "+vb.goValue(fld.Type(), slots[o:o+n], depth+1))
			o += n
		}
		return vb.typeStr(t) + "{" + strings.Join(parts, ", ") + "}"
	case *types.Pointer:
		v := vb.read(slots[:2])
		if vb.err != nil {
			return "nil"
		}
		if v[0].Sign() == 0 {
			return fmt.Sprintf("(%s)(nil)", vb.typeStr(t))
		}
		key := fmt.Sprintf("p:%s:%s:%s", v[0], v[1], vb.typeStr(ut.Elem()))
		if name, ok := vb.backing[key]; ok {
			return name
		}
		vb.nvar++
		name := fmt.Sprintf("ptr%d", vb.nvar)
		vb.backing[key] = name
		inner := vb.goValue(ut.Elem(), vb.memTerms(ut.Elem(), v[0], v[1]), depth+1)
		vb.decls = append(vb.decls, fmt.Sprintf("%s := new(%s)\n\t*%s = %s", name, vb.typeStr(ut.Elem()), name, inner))
		return name
	case *types.Slice:
		v := vb.read(slots[:4])
		if vb.err != nil {
			return "nil"
		}
		if v[0].Sign() == 0 {
			return fmt.Sprintf("%s(nil)", vb.typeStr(t))
		}
		ln, cp := v[2], v[3]
		if !cp.IsInt64() || cp.Int64() > 1<<16 {
			// huge capacity: clamp when only a small prefix is used
			if !ln.IsInt64() || ln.Int64() > 1<<16 {
				vb.err = fmt.Errorf("model slice too large (len %s)", ln)
				return "nil"
			}
			cp = new(big.Int).Set(ln)
			vb.decls = append(vb.decls, fmt.Sprintf("// note: model capacity %s clamped to the length", v[3]))
		}
		es := L.Size(ut.Elem())
		n := cp.Int64()
		var elems []string
		// one model query for all elements
		var all []*Term
		for i := int64(0); i < n; i++ {
			off := new(big.Int).Add(v[1], big.NewInt(i*es))
			all = append(all, vb.memTerms(ut.Elem(), v[0], off)...)
		}
		vb.read(all)
		for i := int64(0); i < n; i++ {
			off := new(big.Int).Add(v[1], big.NewInt(i*es))
			elems = append(elems, vb.goValue(ut.Elem(), vb.memTerms(ut.Elem(), v[0], off), depth+1))
			if vb.err != nil {
				return "nil"
			}
		}
		vb.nvar++
		name := fmt.Sprintf("sl%d", vb.nvar)
		vb.decls = append(vb.decls, fmt.Sprintf("%s := %s{%s}", name, vb.typeStr(t), strings.Join(elems, ", ")))
		return fmt.Sprintf("%s[:%d:%d]", name, ln.Int64(), n)
	}
	vb.err = fmt.Errorf("cannot build input of type %s", t)
	return "nil"
}

var oldCallRe = regexp.MustCompile(`\bverifOld\(`)

func replayStubSource(gen string) string {
	i := strings.Index(gen, "// verif-intrinsics-begin")
	j := strings.Index(gen, "// verif-intrinsics-end")
	if i < 0 || j < 0 {
		return ""
	}
	body := gen[:i] + gen[j+len("// verif-intrinsics-end"):]
	n := 0
	body = oldCallRe.ReplaceAllStringFunc(body, func(string) string {
		n++
		return fmt.Sprintf("verifOldAt(\"s%d\", ", n)
	})
	// drop //line directives (positions of the generated file are fine for a replay)
	var out []string
	bodyless := regexp.MustCompile(`^func \w+\([^{]*$`)
	for _, ln := range strings.Split(body, "\n") {
		if strings.HasPrefix(ln, "//line ") {
			continue
		}
		if bodyless.MatchString(ln) && !strings.HasSuffix(strings.TrimSpace(ln), ",") {
			ln += ` { panic("uninterpreted spec function has no executable meaning") }`
		}
		out = append(out, ln)
	}
	return strings.Join(out, "\n")
}

func buildReplay(repo, prop, cfg, name string, r *Result, u *Unit, reason string, w *World, scratch string) *ReplayFile {
	rf := &ReplayFile{Property: prop, Obligation: name, Config: cfg, Reason: reason}
	if r != nil {
		rf.Solver, rf.Answer, rf.Model = r.Solver, r.Answer, r.Model
		rf.SolverOutput = r.Output
		if len(rf.SolverOutput) > 4000 {
			rf.SolverOutput = rf.SolverOutput[:4000] + "..."
		}
		rf.Position = fmt.Sprintf("%s:%d", r.Obl.Pos.Filename, r.Obl.Pos.Line)
	}
	if r == nil || u == nil || w == nil {
		rf.Note = "no solver model: the obligation was not generated or the unit could not be encoded"
		return rf
	}
	if r.Answer != "sat" {
		rf.Note = "the solver gave no model (" + r.Answer + "); the obligation held on the unchanged tree and is not discharged any more"
		return rf
	}
	if r.Obl.IsCover {
		rf.Note = "vacuity guard failed; nothing to replay"
		return rf
	}
	src, inputs, err := genReplayTest(u, r, w, scratch)
	rf.Inputs = inputs
	if err != nil {
		rf.Note = "no replay generated: " + err.Error()
		return rf
	}
	rf.TestSource = src
	rf.PkgDir = u.Contract.PkgDir
	rf.Tags = w.cfg.Tags
	rf.Cgo = w.cfg.Cgo
	out, confirmed := runReplay(repo, rf, scratch)
	rf.ReplayOutput = out
	rf.Confirmed = confirmed
	if !confirmed {
		rf.Note = "the replay on the real code did not reproduce the violation (see replay_output)"
	}
	return rf
}

func genReplayTest(u *Unit, r *Result, w *World, scratch string) (string, []string, error) {
	con := u.Contract
	if con == nil {
		return "", nil, fmt.Errorf("no contract")
	}
	if con.Kind == "closure" {
		return "", nil, fmt.Errorf("function literals cannot be called directly from a test")
	}
	cls := r.Obl.Class
	switch {
	case cls == "lemma", cls == "post", strings.HasPrefix(cls, "nopanic"):
	default:
		return "", nil, fmt.Errorf("obligations of class %s have no executable oracle (they speak about intermediate states)", cls)
	}
	if strings.Contains(r.Obl.Name, "/") && cls != "lemma" && !strings.HasPrefix(cls, "nopanic") {
		return "", nil, fmt.Errorf("obligation inside an inlined callee")
	}
	gen := w.genSrc[con.PkgDir]
	stubs := replayStubSource(gen)
	if stubs == "" {
		return "", nil, fmt.Errorf("cannot derive the runtime stub source")
	}
	var pkg *types.Package
	if u.Fn != nil && u.Fn.Pkg != nil {
		pkg = u.Fn.Pkg.Pkg
	} else {
		pkg = w.stubs[con].Pkg.Pkg
	}
	vb := &valueBuilder{u: u, o: r.Obl, scratch: scratch, pins: map[*Term]*big.Int{}, pkg: pkg, imports: map[string]string{}, backing: map[string]string{}}
	// prefer a model with small slices / strings: re-solve with size bounds on the inputs
	small := false
	for _, bound := range []uint64{64, 4096} {
		var extra, scalars []*Term
		for _, in := range u.Inputs {
			i := 0
			walkSlots(u.W.layout, in.Type, func(kind string, n int) {
				if kind == "slice" {
					extra = append(extra, u.tb.Ule(in.Slots[i+3], u.tb.BVU(64, bound)))
				} else if kind == "string" {
					extra = append(extra, u.tb.Ule(u.slen(in.Slots[i]), u.tb.BVU(64, bound)))
				}
				i += n
			})
			for _, sl := range in.Slots {
				if sl.Sort.K != KStr {
					scalars = append(scalars, sl)
				}
			}
		}
		seenCap := map[int]bool{}
		for _, c := range u.sliceCaps {
			if !seenCap[c.id] && len(seenCap) < 64 {
				seenCap[c.id] = true
				extra = append(extra, u.tb.Ule(c, u.tb.BVU(64, bound)))
			}
		}
		if len(extra) == 0 {
			break
		}
		pins := map[*Term]*big.Int{}
		for k, e := range extra {
			_ = k
			pins[e] = big.NewInt(1)
		}
		if vals, ok := evalTerms(u, r.Obl, pins, scalars, scratch); ok {
			for _, sl := range scalars {
				vb.pins[sl] = vals[sl.id]
			}
			for e := range pins {
				vb.pins[e] = big.NewInt(1) // keep the size bounds for the memory-content queries
			}
			small = true
			break
		}
	}
	// otherwise pin the scalar model of the failed query
	if !small {
		for _, in := range u.Inputs {
			for _, sl := range in.Slots {
				if v, ok := r.Model[sl.Name]; ok {
					if bv, ok := parseBV(v); ok {
						vb.pins[sl] = bv
					}
				}
			}
		}
	}
	var args []string
	var descr []string
	var body strings.Builder
	for i, in := range u.Inputs {
		expr := vb.goValue(in.Type, in.Slots, 0)
		if vb.err != nil {
			return "", descr, vb.err
		}
		for _, d := range vb.decls {
			body.WriteString("\t" + d + "\n")
		}
		vb.decls = nil
		fmt.Fprintf(&body, "\ta%d := %s\n", i, expr)
		args = append(args, fmt.Sprintf("a%d", i))
		descr = append(descr, fmt.Sprintf("%s = %s", in.Name, expr))
	}
	var t strings.Builder
	if con.Kind == "lemma" {
		fmt.Fprintf(&t, "\tdefer func() {\n\t\tswitch p := recover().(type) {\n\t\tcase nil:\n\t\t\tfmt.Println(\"REPLAY: lemma holds on these inputs\")\n\t\tcase verifAssertFailed:\n\t\t\tfmt.Printf(\"REPLAY: ASSERT %%d FAILED\\n\", p.n)\n\t\tcase verifAssumeFailed:\n\t\t\tfmt.Println(\"REPLAY: inputs violate an assumption of the lemma\")\n\t\tdefault:\n\t\t\tfmt.Printf(\"REPLAY: PANIC %%v\\n\", p)\n\t\t}\n\t}()\n")
		t.WriteString(body.String())
		fmt.Fprintf(&t, "\t%s(%s)\n", con.StubName, strings.Join(args, ", "))
	} else {
		fn := u.Fn
		t.WriteString(body.String())
		sig := fn.Signature
		var rnames []string
		for i := 0; i < sig.Results().Len(); i++ {
			rn := fmt.Sprintf("r%d", i)
			fmt.Fprintf(&t, "\tvar %s %s\n", rn, vb.typeStr(sig.Results().At(i).Type()))
			rnames = append(rnames, rn)
		}
		all := append(append([]string{}, args...), rnames...)
		fmt.Fprintf(&t, "\tverifPhase = 0\n\t%s(%s)\n", con.StubName, strings.Join(all, ", "))
		t.WriteString("\tif len(verifReqFailed) > 0 {\n\t\tfmt.Println(\"REPLAY: inputs violate precondition\", verifReqFailed)\n\t\treturn\n\t}\n")
		call := ""
		if sig.Recv() != nil {
			call = fmt.Sprintf("a0.%s(%s)", fn.Name(), strings.Join(args[1:], ", "))
		} else {
			call = fmt.Sprintf("%s(%s)", fn.Name(), strings.Join(args, ", "))
		}
		if sig.Variadic() {
			call = strings.TrimSuffix(call, ")") + "...)"
		}
		assign := ""
		if len(rnames) > 0 {
			assign = strings.Join(rnames, ", ") + " = "
		}
		fmt.Fprintf(&t, "\tp := func() (p any) {\n\t\tdefer func() { p = recover() }()\n\t\t%s%s\n\t\treturn nil\n\t}()\n", assign, call)
		t.WriteString("\tif p != nil {\n\t\tfmt.Printf(\"REPLAY: PANIC %v\\n\", p)\n\t\treturn\n\t}\n")
		fmt.Fprintf(&t, "\tverifPhase = 1\n\tverifReqN, verifEnsN = 0, 0\n\t%s(%s)\n", con.StubName, strings.Join(all, ", "))
		t.WriteString("\tif verifOldMissing {\n\t\tfmt.Println(\"REPLAY: old() values not aligned between the two passes; inconclusive\")\n\t}\n")
		t.WriteString("\tfor _, k := range verifEnsFailed {\n\t\tfmt.Printf(\"REPLAY: ENSURES %d FAILED\\n\", k)\n\t}\n\tif len(verifEnsFailed) == 0 {\n\t\tfmt.Println(\"REPLAY: all postconditions hold on these inputs\")\n\t}\n")
	}
	// assemble: package clause + imports of the generated file + ours
	pkgLine := "package " + pkg.Name() + "\n"
	rest := stubs[strings.Index(stubs, "package "):]
	rest = rest[strings.Index(rest, "\n")+1:]
	imports := map[string]string{"fmt": "fmt", "reflect": "reflect", "testing": "testing", "time": "time", "unsafe": "unsafe", "net/netip": "netip"}
	// imports of generated stub file
	impRe := regexp.MustCompile(`(?s)import \((.*?)\)\n`)
	if m := impRe.FindStringSubmatch(rest); m != nil {
		for _, ln := range strings.Split(m[1], "\n") {
			f := strings.Fields(ln)
			if len(f) == 2 {
				imports[strings.Trim(f[1], `"`)] = f[0]
			}
		}
		rest = impRe.ReplaceAllString(rest, "")
	}
	for p, n := range vb.imports {
		if _, ok := imports[p]; !ok {
			imports[p] = n
		}
	}
	var il []string
	for p, n := range imports {
		il = append(il, fmt.Sprintf("\t%s %q", n, p))
	}
	sort.Strings(il)
	src := "// replay of " + r.Obl.Name + " (generated by gpverify)\n" + pkgLine + "\nimport (\n" + strings.Join(il, "\n") + "\n)\n\nvar _ = reflect.ValueOf\nvar _ = time.Now\nvar _ = unsafe.Pointer(nil)\nvar _ = netip.Addr{}\n" +
		runtimeIntrinsics + rest + "\nfunc TestVerifReplay(t *testing.T) {\n" + t.String() + "}\n"
	return src, descr, nil
}

func replayExpectation(obligation string) *regexp.Regexp {
	switch {
	case strings.Contains(obligation, "#lemma@"):
		return regexp.MustCompile(`REPLAY: ASSERT \d+ FAILED`)
	case strings.Contains(obligation, "#post@ensures"):
		m := regexp.MustCompile(`#post@ensures(\d+)`).FindStringSubmatch(obligation)
		return regexp.MustCompile(`REPLAY: ENSURES ` + m[1] + ` FAILED`)
	case strings.Contains(obligation, "#nopanic"):
		return regexp.MustCompile(`REPLAY: PANIC`)
	}
	return regexp.MustCompile(`REPLAY: (ASSERT|ENSURES) \d+ FAILED|REPLAY: PANIC`)
}

func runReplay(repo string, rf *ReplayFile, scratch string) (string, bool) {
	dir, err := os.MkdirTemp(scratch, "replay")
	if err != nil {
		return err.Error(), false
	}
	defer os.RemoveAll(dir)
	testFile := filepath.Join(dir, "zz_verif_replay_test.go")
	os.WriteFile(testFile, []byte(rf.TestSource), 0o644)
	ov := map[string]map[string]string{"Replace": {filepath.Join(rf.PkgDir, "zz_verif_replay_test.go"): testFile}}
	ovData, _ := json.Marshal(ov)
	ovPath := filepath.Join(dir, "overlay.json")
	os.WriteFile(ovPath, ovData, 0o644)
	rel, _ := filepath.Rel(repo, rf.PkgDir)
	tags := append([]string{"verif"}, rf.Tags...)
	ctx, cancel := context.WithTimeout(context.Background(), 240*time.Second)
	defer cancel()
	cmd := exec.CommandContext(ctx, "go", "test", "-overlay", ovPath, "-vet=off", "-count=1", "-timeout", "60s", "-tags", strings.Join(tags, ","), "-run", "^TestVerifReplay$", "-v", "./"+rel)
	cmd.Dir = repo
	var env []string
	for _, e := range os.Environ() {
		if strings.HasPrefix(e, "GOFLAGS=") || strings.HasPrefix(e, "CGO_ENABLED=") {
			continue
		}
		env = append(env, e)
	}
	if rf.Cgo {
		env = append(env, "CGO_ENABLED=1")
	} else {
		env = append(env, "CGO_ENABLED=0")
	}
	cmd.Env = env
	var buf bytes.Buffer
	cmd.Stdout = &buf
	cmd.Stderr = &buf
	cmd.Run()
	out := buf.String()
	if len(out) > 6000 {
		out = out[:6000] + "..."
	}
	return out, replayExpectation(rf.Obligation).MatchString(out)
}

func cmdReplay(repo, path string) int {
	var rf ReplayFile
	if err := loadJSON(path, &rf); err != nil {
		fmt.Fprintln(os.Stderr, err)
		return 2
	}
	fmt.Printf("obligation: %s [%s]\nreason: %s\n", rf.Obligation, rf.Config, rf.Reason)
	for _, in := range rf.Inputs {
		fmt.Println("input:", in)
	}
	if rf.TestSource == "" {
		fmt.Println("no executable replay for this obligation:", rf.Note)
		fmt.Printf("VIOLATION property=%s replay=%s no-failing-input-found\n", rf.Property, path)
		return 1
	}
	scratch, _ := os.MkdirTemp("", "gpv-replay-")
	defer os.RemoveAll(scratch)
	out, ok := runReplay(repo, &rf, scratch)
	fmt.Println(out)
	if ok {
		fmt.Printf("VIOLATION property=%s replay=%s\n", rf.Property, path)
		return 1
	}
	fmt.Println("the violation did not reproduce on the current tree")
	return 0
}

var _ = ssa.NewProgram
