package main

// Term library: hash-consed SMT terms over Bool, fixed-width bit-vectors and one
// uninterpreted sort (Str), with constant folding and light normalisation
// (x + c1 + c2, x+c1 == x+c2, ite with constant guards ...). Everything the
// encoder produces is printed as SMT-LIB2 by Printer (smt.go).

import (
	"fmt"
	"math/big"
	"sort"
	"strings"
)

type SortKind int

const (
	KBool SortKind = iota
	KBV
	KStr // uninterpreted sort for Go strings
)

type Sort struct {
	K SortKind
	W int
}

var (
	BoolSort = Sort{KBool, 0}
	StrSort  = Sort{KStr, 0}
	ObjSort  = Sort{KBV, 32}
	BV64     = Sort{KBV, 64}
	BV8      = Sort{KBV, 8}
)

func BVSort(w int) Sort { return Sort{KBV, w} }

func (s Sort) String() string {
	switch s.K {
	case KBool:
		return "Bool"
	case KBV:
		return fmt.Sprintf("(_ BitVec %d)", s.W)
	case KStr:
		return "Str"
	}
	return "?"
}

func (s Sort) Key() string {
	switch s.K {
	case KBool:
		return "b"
	case KBV:
		return fmt.Sprintf("v%d", s.W)
	case KStr:
		return "s"
	}
	return "?"
}

type Term struct {
	Op    string // "true","false","bv","sym","uf:<name>","bvar", or an SMT operator
	Sort  Sort
	Args  []*Term
	Val   *big.Int // bv constant
	Name  string   // sym / uf / bvar
	P1    int      // extract hi / extension amount
	P2    int      // extract lo
	Bound []*Term  // quantifier bound variables (Op == forall/exists)
	id    int
	hasBV bool // contains a bound variable
}

type TB struct {
	tab  map[string]*Term
	n    int
	ufs  map[string]*UFDecl
	syms map[string]Sort
	low  map[int]bool // BV32 terms known to denote input-world object ids (< lowLimit)
	noGlob map[int]bool // BV32 terms (object ids) that never denote a package-level variable
	eqMemo map[[2]int]*Term
}

const lowLimit = 0x80000000

// MarkLow records that t is an object id of the input world.
func (tb *TB) MarkLow(t *Term) {
	if t.Sort.K == KBV && t.Sort.W == 32 && t.Op != "bv" {
		tb.low[t.id] = true
	}
}

// Package-level variables have the object ids globalBase .. globalBase+globalBand-1.
const globalBase = 16
const globalBand = 1 << 16

// MarkNoGlob records that t is the object id of a pointer whose target type does not occur
// in any package-level variable: it never equals the id of one.
func (tb *TB) MarkNoGlob(t *Term) {
	if t.Sort.K == KBV && t.Sort.W == 32 && t.Op != "bv" {
		tb.noGlob[t.id] = true
	}
}

func isGlobConst(t *Term) bool {
	return t.Op == "bv" && t.Sort.W == 32 && t.Val.IsInt64() && t.Val.Int64() >= globalBase && t.Val.Int64() < globalBase+globalBand
}

func (tb *TB) isNoGlob(t *Term) bool {
	if t.Op == "bv" {
		return t.Sort.W == 32 && !isGlobConst(t)
	}
	if tb.noGlob[t.id] {
		return true
	}
	if t.Op == "ite" {
		return tb.isNoGlob(t.Args[1]) && tb.isNoGlob(t.Args[2])
	}
	return false
}

func (tb *TB) isLow(t *Term) bool {
	if t.Op == "bv" {
		return t.Sort.W == 32 && t.Val.Cmp(big.NewInt(lowLimit)) < 0
	}
	if tb.low[t.id] {
		return true
	}
	if t.Op == "ite" {
		return tb.isLow(t.Args[1]) && tb.isLow(t.Args[2])
	}
	return false
}

// rawUlt builds a <u b without any simplification.
func (tb *TB) rawUlt(a, b *Term) *Term {
	return tb.mk(&Term{Op: "bvult", Sort: BoolSort, Args: []*Term{a, b}})
}

func isHighConst(t *Term) bool {
	return t.Op == "bv" && t.Sort.W == 32 && t.Val.Cmp(big.NewInt(lowLimit)) >= 0
}

type UFDecl struct {
	Name string
	Args []Sort
	Ret  Sort
}

func NewTB() *TB {
	return &TB{tab: map[string]*Term{}, ufs: map[string]*UFDecl{}, syms: map[string]Sort{}, low: map[int]bool{}, noGlob: map[int]bool{}, eqMemo: map[[2]int]*Term{}}
}

func (tb *TB) mk(t *Term) *Term {
	var sb strings.Builder
	sb.WriteString(t.Op)
	sb.WriteByte('|')
	sb.WriteString(t.Sort.Key())
	sb.WriteByte('|')
	if t.Val != nil {
		sb.WriteString(t.Val.Text(16))
	}
	sb.WriteByte('|')
	sb.WriteString(t.Name)
	fmt.Fprintf(&sb, "|%d|%d", t.P1, t.P2)
	for _, a := range t.Args {
		fmt.Fprintf(&sb, ",%d", a.id)
	}
	for _, a := range t.Bound {
		fmt.Fprintf(&sb, ";%d", a.id)
	}
	k := sb.String()
	if x, ok := tb.tab[k]; ok {
		return x
	}
	tb.n++
	t.id = tb.n
	for _, a := range t.Args {
		if a.hasBV {
			t.hasBV = true
		}
	}
	if t.Op == "bvar" {
		t.hasBV = true
	}
	tb.tab[k] = t
	return t
}

func (tb *TB) True() *Term  { return tb.mk(&Term{Op: "true", Sort: BoolSort}) }
func (tb *TB) False() *Term { return tb.mk(&Term{Op: "false", Sort: BoolSort}) }
func (tb *TB) Bool(b bool) *Term {
	if b {
		return tb.True()
	}
	return tb.False()
}

func mask(w int) *big.Int {
	m := new(big.Int).Lsh(big.NewInt(1), uint(w))
	return m.Sub(m, big.NewInt(1))
}

func (tb *TB) BVBig(w int, v *big.Int) *Term {
	x := new(big.Int).And(v, mask(w))
	return tb.mk(&Term{Op: "bv", Sort: BVSort(w), Val: x})
}
func (tb *TB) BV(w int, v int64) *Term  { return tb.BVBig(w, big.NewInt(v)) }
func (tb *TB) BVU(w int, v uint64) *Term { return tb.BVBig(w, new(big.Int).SetUint64(v)) }

func (tb *TB) Sym(name string, s Sort) *Term {
	if old, ok := tb.syms[name]; ok && old != s {
		panic("symbol redeclared with other sort: " + name)
	}
	tb.syms[name] = s
	return tb.mk(&Term{Op: "sym", Sort: s, Name: name})
}

func (tb *TB) BVar(name string, s Sort) *Term {
	return tb.mk(&Term{Op: "bvar", Sort: s, Name: name})
}

func (tb *TB) UF(name string, ret Sort, args ...*Term) *Term {
	if _, ok := tb.ufs[name]; !ok {
		d := &UFDecl{Name: name, Ret: ret}
		for _, a := range args {
			d.Args = append(d.Args, a.Sort)
		}
		tb.ufs[name] = d
	} else {
		d := tb.ufs[name]
		if len(d.Args) != len(args) || d.Ret != ret {
			panic("uf arity/sort mismatch: " + name)
		}
		for i, a := range args {
			if d.Args[i] != a.Sort {
				panic(fmt.Sprintf("uf %s arg %d sort mismatch: %v vs %v", name, i, d.Args[i], a.Sort))
			}
		}
	}
	return tb.mk(&Term{Op: "uf:" + name, Sort: ret, Args: args, Name: name})
}

func (t *Term) IsConst() bool { return t.Op == "bv" || t.Op == "true" || t.Op == "false" }
func (t *Term) IsTrue() bool  { return t.Op == "true" }
func (t *Term) IsFalse() bool { return t.Op == "false" }

// signed value of a bv constant
func (t *Term) Signed() *big.Int {
	v := new(big.Int).Set(t.Val)
	if v.Bit(t.Sort.W-1) == 1 {
		v.Sub(v, new(big.Int).Lsh(big.NewInt(1), uint(t.Sort.W)))
	}
	return v
}

func (t *Term) ConstInt64() (int64, bool) {
	if t.Op != "bv" {
		return 0, false
	}
	s := t.Signed()
	if !s.IsInt64() {
		return 0, false
	}
	return s.Int64(), true
}

// ---------------------------------------------------------------- Boolean

func (tb *TB) Not(a *Term) *Term {
	switch a.Op {
	case "true":
		return tb.False()
	case "false":
		return tb.True()
	case "not":
		return a.Args[0]
	}
	return tb.mk(&Term{Op: "not", Sort: BoolSort, Args: []*Term{a}})
}

func (tb *TB) nary(op string, unit, zero *Term, args []*Term) *Term {
	var out []*Term
	seen := map[int]bool{}
	var add func(a *Term) bool
	add = func(a *Term) bool {
		if a == zero {
			return false
		}
		if a == unit {
			return true
		}
		if a.Op == op {
			for _, x := range a.Args {
				if !add(x) {
					return false
				}
			}
			return true
		}
		if !seen[a.id] {
			seen[a.id] = true
			out = append(out, a)
		}
		return true
	}
	for _, a := range args {
		if a.Sort.K != KBool {
			panic("boolean connective on non-bool " + a.Op + " " + a.Sort.String())
		}
		if !add(a) {
			return zero
		}
	}
	// x and (not x)
	for _, a := range out {
		if a.Op == "not" && seen[a.Args[0].id] {
			return zero
		}
	}
	if len(out) == 0 {
		return unit
	}
	if len(out) == 1 {
		return out[0]
	}
	return tb.mk(&Term{Op: op, Sort: BoolSort, Args: out})
}

func (tb *TB) And(args ...*Term) *Term { return tb.nary("and", tb.True(), tb.False(), args) }
func (tb *TB) Or(args ...*Term) *Term  { return tb.nary("or", tb.False(), tb.True(), args) }
func (tb *TB) Implies(a, b *Term) *Term {
	return tb.Or(tb.Not(a), b)
}

func (tb *TB) Ite(c, a, b *Term) *Term {
	if c.IsTrue() {
		return a
	}
	if c.IsFalse() {
		return b
	}
	if a == b {
		return a
	}
	if a.Sort != b.Sort {
		panic(fmt.Sprintf("ite sort mismatch %v %v", a.Sort, b.Sort))
	}
	if a.Sort.K == KBool {
		if a.IsTrue() && b.IsFalse() {
			return c
		}
		if a.IsFalse() && b.IsTrue() {
			return tb.Not(c)
		}
		if a.IsTrue() {
			return tb.Or(c, b)
		}
		if a.IsFalse() {
			return tb.And(tb.Not(c), b)
		}
		if b.IsTrue() {
			return tb.Or(tb.Not(c), a)
		}
		if b.IsFalse() {
			return tb.And(c, a)
		}
	}
	if c.Op == "not" {
		return tb.Ite(c.Args[0], b, a)
	}
	// ite(c, x, ite(c, y, z)) = ite(c, x, z)
	if b.Op == "ite" && b.Args[0] == c {
		return tb.Ite(c, a, b.Args[2])
	}
	if a.Op == "ite" && a.Args[0] == c {
		return tb.Ite(c, a.Args[1], b)
	}
	return tb.mk(&Term{Op: "ite", Sort: a.Sort, Args: []*Term{c, a, b}})
}

// splitAdd decomposes t into (base, const) with t = base + const (base may be nil for pure constants)
func (tb *TB) splitAdd(t *Term) (*Term, *big.Int) {
	if t.Op == "bv" {
		return nil, t.Val
	}
	if t.Op == "bvadd" && len(t.Args) == 2 && t.Args[1].Op == "bv" {
		return t.Args[0], t.Args[1].Val
	}
	return t, big.NewInt(0)
}

func (tb *TB) Eq(a, b *Term) *Term {
	if a.Sort != b.Sort {
		panic(fmt.Sprintf("eq sort mismatch %v(%s) %v(%s)", a.Sort, a.Op, b.Sort, b.Op))
	}
	if a == b {
		return tb.True()
	}
	if a.IsConst() && b.IsConst() {
		return tb.False() // hash-consed: different constants
	}
	key := [2]int{a.id, b.id}
	if a.id > b.id {
		key = [2]int{b.id, a.id}
	}
	if r, ok := tb.eqMemo[key]; ok {
		return r
	}
	r := tb.eq(a, b)
	tb.eqMemo[key] = r
	return r
}

func (tb *TB) eq(a, b *Term) *Term {
	if a.Sort.K == KBool {
		if a.IsTrue() {
			return b
		}
		if b.IsTrue() {
			return a
		}
		if a.IsFalse() {
			return tb.Not(b)
		}
		if b.IsFalse() {
			return tb.Not(a)
		}
	}
	if a.Sort.K == KBV {
		if isHighConst(a) && tb.isLow(b) || isHighConst(b) && tb.isLow(a) {
			return tb.False()
		}
		if isGlobConst(a) && tb.isNoGlob(b) || isGlobConst(b) && tb.isNoGlob(a) {
			return tb.False()
		}
		// push a comparison with a constant into an ite when both sides decide
		for _, pr := range [][2]*Term{{a, b}, {b, a}} {
			x, k := pr[0], pr[1]
			if x.Op == "ite" && (k.Op == "bv" || iteOfSums(x)) && k.Op != "ite" {
				e1 := tb.Eq(x.Args[1], k)
				e2 := tb.Eq(x.Args[2], k)
				if e1.IsConst() && e2.IsConst() || e1.IsConst() && e1.IsFalse() || e2.IsConst() && e2.IsFalse() {
					return tb.Ite(x.Args[0], e1, e2)
				}
			}
		}
		ba, ca := tb.splitAdd(a)
		bb, cb := tb.splitAdd(b)
		if ba == bb && ba != nil {
			return tb.Bool(ca.Cmp(cb) == 0)
		}
		// zero_extend(x) == const
		if a.Op == "zext" && b.Op == "bv" {
			iw := a.Args[0].Sort.W
			if b.Val.BitLen() > iw {
				return tb.False()
			}
			return tb.Eq(a.Args[0], tb.BVBig(iw, b.Val))
		}
		if b.Op == "zext" && a.Op == "bv" {
			return tb.Eq(b, a)
		}
		if a.Op == "zext" && b.Op == "zext" && a.Args[0].Sort == b.Args[0].Sort {
			return tb.Eq(a.Args[0], b.Args[0])
		}
		// ite(c, k1, k2) == k3 with constants
		if a.Op == "ite" && b.IsConst() && a.Args[1].IsConst() && a.Args[2].IsConst() {
			return tb.Ite(a.Args[0], tb.Eq(a.Args[1], b), tb.Eq(a.Args[2], b))
		}
		if b.Op == "ite" && a.IsConst() && b.Args[1].IsConst() && b.Args[2].IsConst() {
			return tb.Eq(b, a)
		}
	}
	if a.id > b.id {
		a, b = b, a
	}
	return tb.mk(&Term{Op: "=", Sort: BoolSort, Args: []*Term{a, b}})
}

// ---------------------------------------------------------------- bit-vectors

func (tb *TB) bin(op string, a, b *Term) *Term {
	if a.Sort != b.Sort || a.Sort.K != KBV {
		panic(fmt.Sprintf("%s sort mismatch %v %v", op, a.Sort, b.Sort))
	}
	return tb.mk(&Term{Op: op, Sort: a.Sort, Args: []*Term{a, b}})
}

// iteOfSums: ite(c, x+k1, x+k2)-shaped term (produced by distributing + over ite of constants)
func iteOfSums(t *Term) bool {
	return t.Op == "ite" && t.Args[1].Sort.K == KBV && t.Args[1].Op != "ite" && t.Args[2].Op != "ite"
}

func (tb *TB) Add(a, b *Term) *Term {
	w := a.Sort.W
	if a.Sort != b.Sort {
		panic(fmt.Sprintf("bvadd sort mismatch %v %v", a.Sort, b.Sort))
	}
	// x + ite(c, k1, k2) = ite(c, x+k1, x+k2): keeps offsets of the form base+constant
	for _, pr := range [][2]*Term{{a, b}, {b, a}} {
		x, t := pr[0], pr[1]
		if t.Op == "ite" && t.Args[1].Op == "bv" && t.Args[2].Op == "bv" && x.Op != "ite" {
			return tb.Ite(t.Args[0], tb.Add(x, t.Args[1]), tb.Add(x, t.Args[2]))
		}
		if t.Op == "bv" && x.Op == "ite" && iteOfSums(x) {
			b1, _ := tb.splitAdd(x.Args[1])
			b2, _ := tb.splitAdd(x.Args[2])
			if b1 == b2 {
				return tb.Ite(x.Args[0], tb.Add(x.Args[1], t), tb.Add(x.Args[2], t))
			}
		}
	}
	ba, ca := tb.splitAdd(a)
	bb, cb := tb.splitAdd(b)
	c := new(big.Int).Add(ca, cb)
	c.And(c, mask(w))
	var base *Term
	switch {
	case ba == nil && bb == nil:
		return tb.BVBig(w, c)
	case ba == nil:
		base = bb
	case bb == nil:
		base = ba
	default:
		// x + (-x)?
		if ba.Op == "bvneg" && ba.Args[0] == bb || bb.Op == "bvneg" && bb.Args[0] == ba {
			return tb.BVBig(w, c)
		}
		x, y := ba, bb
		if x.id > y.id {
			x, y = y, x
		}
		base = tb.mk(&Term{Op: "bvadd", Sort: a.Sort, Args: []*Term{x, y}})
	}
	if c.Sign() == 0 {
		return base
	}
	return tb.mk(&Term{Op: "bvadd", Sort: a.Sort, Args: []*Term{base, tb.BVBig(w, c)}})
}

func (tb *TB) Neg(a *Term) *Term {
	if a.Op == "bv" {
		return tb.BVBig(a.Sort.W, new(big.Int).Neg(a.Val))
	}
	if a.Op == "bvneg" {
		return a.Args[0]
	}
	return tb.mk(&Term{Op: "bvneg", Sort: a.Sort, Args: []*Term{a}})
}

func (tb *TB) Sub(a, b *Term) *Term {
	if a == b {
		return tb.BV(a.Sort.W, 0)
	}
	if b.Op == "bv" {
		return tb.Add(a, tb.Neg(b))
	}
	ba, ca := tb.splitAdd(a)
	bb, cb := tb.splitAdd(b)
	if ba != nil && ba == bb {
		return tb.BVBig(a.Sort.W, new(big.Int).Sub(ca, cb))
	}
	if bb != nil && cb.Sign() != 0 {
		// a - (y + c) = (a - y) - c
		return tb.Add(tb.Sub(a, bb), tb.BVBig(a.Sort.W, new(big.Int).Neg(cb)))
	}
	if ba != nil && ca.Sign() != 0 {
		return tb.Add(tb.Sub(ba, b), tb.BVBig(a.Sort.W, ca))
	}
	// (x + y) - x
	if a.Op == "bvadd" && len(a.Args) == 2 {
		if a.Args[0] == b {
			return a.Args[1]
		}
		if a.Args[1] == b {
			return a.Args[0]
		}
	}
	return tb.bin("bvsub", a, b)
}

func (tb *TB) Mul(a, b *Term) *Term {
	w := a.Sort.W
	if a.Op == "bv" && b.Op == "bv" {
		return tb.BVBig(w, new(big.Int).Mul(a.Val, b.Val))
	}
	if a.Op == "bv" {
		a, b = b, a
	}
	if b.Op == "bv" {
		if b.Val.Sign() == 0 {
			return b
		}
		if b.Val.Cmp(big.NewInt(1)) == 0 {
			return a
		}
		// (x + c) * k = x*k + c*k
		if ba, ca := tb.splitAdd(a); ba != nil && ca.Sign() != 0 {
			return tb.Add(tb.Mul(ba, b), tb.BVBig(w, new(big.Int).Mul(ca, b.Val)))
		}
	}
	return tb.bin("bvmul", a, b)
}

func (tb *TB) constBin(a, b *Term, f func(x, y *big.Int) *big.Int) *Term {
	if a.Op == "bv" && b.Op == "bv" {
		r := f(a.Val, b.Val)
		if r != nil {
			return tb.BVBig(a.Sort.W, r)
		}
	}
	return nil
}

func (tb *TB) UDiv(a, b *Term) *Term {
	if r := tb.constBin(a, b, func(x, y *big.Int) *big.Int {
		if y.Sign() == 0 {
			return nil
		}
		return new(big.Int).Quo(x, y)
	}); r != nil {
		return r
	}
	return tb.bin("bvudiv", a, b)
}
func (tb *TB) URem(a, b *Term) *Term {
	if r := tb.constBin(a, b, func(x, y *big.Int) *big.Int {
		if y.Sign() == 0 {
			return nil
		}
		return new(big.Int).Rem(x, y)
	}); r != nil {
		return r
	}
	return tb.bin("bvurem", a, b)
}
func (tb *TB) SDiv(a, b *Term) *Term {
	if a.Op == "bv" && b.Op == "bv" && b.Val.Sign() != 0 {
		return tb.BVBig(a.Sort.W, new(big.Int).Quo(a.Signed(), b.Signed()))
	}
	return tb.bin("bvsdiv", a, b)
}
func (tb *TB) SRem(a, b *Term) *Term {
	if a.Op == "bv" && b.Op == "bv" && b.Val.Sign() != 0 {
		return tb.BVBig(a.Sort.W, new(big.Int).Rem(a.Signed(), b.Signed()))
	}
	return tb.bin("bvsrem", a, b)
}
func (tb *TB) BAnd(a, b *Term) *Term {
	if r := tb.constBin(a, b, func(x, y *big.Int) *big.Int { return new(big.Int).And(x, y) }); r != nil {
		return r
	}
	if a == b {
		return a
	}
	for _, p := range [][2]*Term{{a, b}, {b, a}} {
		if p[0].Op == "bv" {
			if p[0].Val.Sign() == 0 {
				return p[0]
			}
			if p[0].Val.Cmp(mask(a.Sort.W)) == 0 {
				return p[1]
			}
		}
	}
	return tb.bin("bvand", a, b)
}
func (tb *TB) BOr(a, b *Term) *Term {
	if r := tb.constBin(a, b, func(x, y *big.Int) *big.Int { return new(big.Int).Or(x, y) }); r != nil {
		return r
	}
	if a == b {
		return a
	}
	for _, p := range [][2]*Term{{a, b}, {b, a}} {
		if p[0].Op == "bv" && p[0].Val.Sign() == 0 {
			return p[1]
		}
	}
	return tb.bin("bvor", a, b)
}
func (tb *TB) BXor(a, b *Term) *Term {
	if r := tb.constBin(a, b, func(x, y *big.Int) *big.Int { return new(big.Int).Xor(x, y) }); r != nil {
		return r
	}
	if a == b {
		return tb.BV(a.Sort.W, 0)
	}
	return tb.bin("bvxor", a, b)
}
func (tb *TB) BNot(a *Term) *Term {
	if a.Op == "bv" {
		return tb.BVBig(a.Sort.W, new(big.Int).Xor(a.Val, mask(a.Sort.W)))
	}
	return tb.mk(&Term{Op: "bvnot", Sort: a.Sort, Args: []*Term{a}})
}

// shifts: shift count b must have the same width as a (caller normalises, and
// handles Go's "count >= width" semantics, which coincide with SMT-LIB's)
func (tb *TB) Shl(a, b *Term) *Term {
	if b.Op == "bv" {
		if b.Val.Sign() == 0 {
			return a
		}
		if b.Val.Cmp(big.NewInt(int64(a.Sort.W))) >= 0 {
			return tb.BV(a.Sort.W, 0)
		}
		if a.Op == "bv" {
			return tb.BVBig(a.Sort.W, new(big.Int).Lsh(a.Val, uint(b.Val.Int64())))
		}
	}
	return tb.bin("bvshl", a, b)
}
func (tb *TB) LShr(a, b *Term) *Term {
	if b.Op == "bv" {
		if b.Val.Sign() == 0 {
			return a
		}
		if b.Val.Cmp(big.NewInt(int64(a.Sort.W))) >= 0 {
			return tb.BV(a.Sort.W, 0)
		}
		if a.Op == "bv" {
			return tb.BVBig(a.Sort.W, new(big.Int).Rsh(a.Val, uint(b.Val.Int64())))
		}
	}
	return tb.bin("bvlshr", a, b)
}
func (tb *TB) AShr(a, b *Term) *Term {
	if b.Op == "bv" {
		if b.Val.Sign() == 0 {
			return a
		}
		if a.Op == "bv" {
			sh := uint(a.Sort.W)
			if b.Val.Cmp(big.NewInt(int64(a.Sort.W))) < 0 {
				sh = uint(b.Val.Int64())
			}
			return tb.BVBig(a.Sort.W, new(big.Int).Rsh(a.Signed(), sh))
		}
	}
	return tb.bin("bvashr", a, b)
}

func (tb *TB) cmp(op string, a, b *Term, f func(x, y *Term) bool) *Term {
	if a.Sort != b.Sort || a.Sort.K != KBV {
		panic(fmt.Sprintf("%s sort mismatch %v %v", op, a.Sort, b.Sort))
	}
	if a.Op == "bv" && b.Op == "bv" {
		return tb.Bool(f(a, b))
	}
	return tb.mk(&Term{Op: op, Sort: BoolSort, Args: []*Term{a, b}})
}

func (tb *TB) Ult(a, b *Term) *Term {
	if a == b {
		return tb.False()
	}
	if isHighConst(b) && tb.isLow(a) {
		return tb.True()
	}
	if isHighConst(a) && tb.isLow(b) {
		return tb.False()
	}
	if b.Op == "bv" && b.Val.Sign() == 0 {
		return tb.False()
	}
	// zext(x) <u const where const > max(x)
	if a.Op == "zext" && b.Op == "bv" && b.Val.BitLen() > a.Args[0].Sort.W {
		return tb.True()
	}
	if a.Op == "zext" && b.Op == "zext" && a.Args[0].Sort == b.Args[0].Sort {
		return tb.Ult(a.Args[0], b.Args[0])
	}
	return tb.cmp("bvult", a, b, func(x, y *Term) bool { return x.Val.Cmp(y.Val) < 0 })
}
func (tb *TB) Ule(a, b *Term) *Term {
	if a == b {
		return tb.True()
	}
	if isHighConst(b) && tb.isLow(a) {
		return tb.True()
	}
	if isHighConst(a) && tb.isLow(b) {
		return tb.False()
	}
	if a.Op == "bv" && a.Val.Sign() == 0 {
		return tb.True()
	}
	if a.Op == "zext" && b.Op == "bv" && b.Val.BitLen() > a.Args[0].Sort.W {
		return tb.True()
	}
	if a.Op == "zext" && b.Op == "zext" && a.Args[0].Sort == b.Args[0].Sort {
		return tb.Ule(a.Args[0], b.Args[0])
	}
	return tb.cmp("bvule", a, b, func(x, y *Term) bool { return x.Val.Cmp(y.Val) <= 0 })
}
func (tb *TB) Slt(a, b *Term) *Term {
	if a == b {
		return tb.False()
	}
	// zext values are non-negative
	if a.Op == "zext" && b.Op == "zext" && a.Args[0].Sort == b.Args[0].Sort {
		return tb.Ult(a.Args[0], b.Args[0])
	}
	if a.Op == "zext" && b.Op == "bv" && b.Signed().Sign() >= 0 {
		return tb.Ult(a, b)
	}
	if b.Op == "zext" && a.Op == "bv" && a.Signed().Sign() >= 0 {
		return tb.Ult(a, b)
	}
	return tb.cmp("bvslt", a, b, func(x, y *Term) bool { return x.Signed().Cmp(y.Signed()) < 0 })
}
func (tb *TB) Sle(a, b *Term) *Term {
	if a == b {
		return tb.True()
	}
	if a.Op == "zext" && b.Op == "zext" && a.Args[0].Sort == b.Args[0].Sort {
		return tb.Ule(a.Args[0], b.Args[0])
	}
	if a.Op == "zext" && b.Op == "bv" && b.Signed().Sign() >= 0 {
		return tb.Ule(a, b)
	}
	if b.Op == "zext" && a.Op == "bv" && a.Signed().Sign() >= 0 {
		return tb.Ule(a, b)
	}
	return tb.cmp("bvsle", a, b, func(x, y *Term) bool { return x.Signed().Cmp(y.Signed()) <= 0 })
}

func (tb *TB) Extract(hi, lo int, a *Term) *Term {
	if lo == 0 && hi == a.Sort.W-1 {
		return a
	}
	w := hi - lo + 1
	if a.Op == "bv" {
		return tb.BVBig(w, new(big.Int).Rsh(a.Val, uint(lo)))
	}
	if (a.Op == "zext" || a.Op == "sext") && hi < a.Args[0].Sort.W {
		return tb.Extract(hi, lo, a.Args[0])
	}
	if a.Op == "zext" && lo >= a.Args[0].Sort.W {
		return tb.BV(w, 0)
	}
	if a.Op == "concat" {
		lw := a.Args[1].Sort.W
		if hi < lw {
			return tb.Extract(hi, lo, a.Args[1])
		}
		if lo >= lw {
			return tb.Extract(hi-lw, lo-lw, a.Args[0])
		}
	}
	if a.Op == "ite" && a.Args[1].IsConst() && a.Args[2].IsConst() {
		return tb.Ite(a.Args[0], tb.Extract(hi, lo, a.Args[1]), tb.Extract(hi, lo, a.Args[2]))
	}
	return tb.mk(&Term{Op: "extract", Sort: BVSort(w), Args: []*Term{a}, P1: hi, P2: lo})
}

func (tb *TB) ZExt(a *Term, to int) *Term {
	if to == a.Sort.W {
		return a
	}
	if to < a.Sort.W {
		return tb.Extract(to-1, 0, a)
	}
	if a.Op == "bv" {
		return tb.BVBig(to, a.Val)
	}
	if a.Op == "zext" {
		return tb.ZExt(a.Args[0], to)
	}
	if a.Op == "ite" && a.Args[1].IsConst() && a.Args[2].IsConst() {
		return tb.Ite(a.Args[0], tb.ZExt(a.Args[1], to), tb.ZExt(a.Args[2], to))
	}
	return tb.mk(&Term{Op: "zext", Sort: BVSort(to), Args: []*Term{a}, P1: to - a.Sort.W})
}

func (tb *TB) SExt(a *Term, to int) *Term {
	if to == a.Sort.W {
		return a
	}
	if to < a.Sort.W {
		return tb.Extract(to-1, 0, a)
	}
	if a.Op == "bv" {
		return tb.BVBig(to, a.Signed())
	}
	if a.Op == "zext" {
		return tb.ZExt(a.Args[0], to)
	}
	return tb.mk(&Term{Op: "sext", Sort: BVSort(to), Args: []*Term{a}, P1: to - a.Sort.W})
}

func (tb *TB) Concat(hi, lo *Term) *Term {
	if hi.Op == "bv" && lo.Op == "bv" {
		v := new(big.Int).Lsh(hi.Val, uint(lo.Sort.W))
		v.Or(v, lo.Val)
		return tb.BVBig(hi.Sort.W+lo.Sort.W, v)
	}
	if hi.Op == "bv" && hi.Val.Sign() == 0 {
		return tb.ZExt(lo, hi.Sort.W+lo.Sort.W)
	}
	// concat(extract(h, m+1, x), extract(m, l, x)) = extract(h, l, x)
	if hi.Op == "extract" && lo.Op == "extract" && hi.Args[0] == lo.Args[0] && hi.P2 == lo.P1+1 {
		return tb.Extract(hi.P1, lo.P2, hi.Args[0])
	}
	return tb.mk(&Term{Op: "concat", Sort: BVSort(hi.Sort.W + lo.Sort.W), Args: []*Term{hi, lo}})
}

// ---------------------------------------------------------------- quantifiers

func (tb *TB) Forall(vars []*Term, body *Term) *Term {
	if body.IsTrue() || body.IsFalse() {
		return body
	}
	if !body.hasBV {
		return body
	}
	t := tb.mk(&Term{Op: "forall", Sort: BoolSort, Args: []*Term{body}, Bound: vars})
	t.hasBV = tb.stillBound(body, vars)
	return t
}

func (tb *TB) Exists(vars []*Term, body *Term) *Term {
	if body.IsTrue() || body.IsFalse() {
		return body
	}
	if !body.hasBV {
		return body
	}
	t := tb.mk(&Term{Op: "exists", Sort: BoolSort, Args: []*Term{body}, Bound: vars})
	t.hasBV = tb.stillBound(body, vars)
	return t
}

// stillBound reports whether body has free bound-variables other than vars (nested quantifiers)
func (tb *TB) stillBound(body *Term, vars []*Term) bool {
	bound := map[int]bool{}
	for _, v := range vars {
		bound[v.id] = true
	}
	seen := map[int]bool{}
	var walk func(t *Term, b map[int]bool) bool
	walk = func(t *Term, b map[int]bool) bool {
		if !t.hasBV {
			return false
		}
		if t.Op == "bvar" {
			return !b[t.id]
		}
		if t.Op == "forall" || t.Op == "exists" {
			nb := map[int]bool{}
			for k := range b {
				nb[k] = true
			}
			for _, v := range t.Bound {
				nb[v.id] = true
			}
			return walk(t.Args[0], nb)
		}
		if seen[t.id] {
			return false
		}
		seen[t.id] = true
		for _, a := range t.Args {
			if walk(a, b) {
				return true
			}
		}
		return false
	}
	return walk(body, bound)
}

// Subst replaces symbols/bvars (by term identity) in t.
func (tb *TB) Subst(t *Term, m map[*Term]*Term) *Term {
	return tb.SubstMemo(t, m, map[int]*Term{})
}

// SubstMemo is Subst with a memo table shared between calls that use the same map.
func (tb *TB) SubstMemo(t *Term, m map[*Term]*Term, memo map[int]*Term) *Term {
	var rec func(t *Term) *Term
	rec = func(t *Term) *Term {
		if r, ok := m[t]; ok {
			return r
		}
		if len(t.Args) == 0 {
			return t
		}
		if r, ok := memo[t.id]; ok {
			return r
		}
		args := make([]*Term, len(t.Args))
		ch := false
		for i, a := range t.Args {
			args[i] = rec(a)
			if args[i] != a {
				ch = true
			}
		}
		var r *Term
		if !ch {
			r = t
		} else {
			r = tb.Rebuild(t, args)
		}
		memo[t.id] = r
		return r
	}
	return rec(t)
}

// Rebuild re-applies the smart constructor of t.Op to new arguments.
func (tb *TB) Rebuild(t *Term, a []*Term) *Term {
	switch t.Op {
	case "not":
		return tb.Not(a[0])
	case "and":
		return tb.And(a...)
	case "or":
		return tb.Or(a...)
	case "ite":
		return tb.Ite(a[0], a[1], a[2])
	case "=":
		return tb.Eq(a[0], a[1])
	case "bvadd":
		return tb.Add(a[0], a[1])
	case "bvsub":
		return tb.Sub(a[0], a[1])
	case "bvmul":
		return tb.Mul(a[0], a[1])
	case "bvneg":
		return tb.Neg(a[0])
	case "bvudiv":
		return tb.UDiv(a[0], a[1])
	case "bvurem":
		return tb.URem(a[0], a[1])
	case "bvsdiv":
		return tb.SDiv(a[0], a[1])
	case "bvsrem":
		return tb.SRem(a[0], a[1])
	case "bvand":
		return tb.BAnd(a[0], a[1])
	case "bvor":
		return tb.BOr(a[0], a[1])
	case "bvxor":
		return tb.BXor(a[0], a[1])
	case "bvnot":
		return tb.BNot(a[0])
	case "bvshl":
		return tb.Shl(a[0], a[1])
	case "bvlshr":
		return tb.LShr(a[0], a[1])
	case "bvashr":
		return tb.AShr(a[0], a[1])
	case "bvult":
		return tb.Ult(a[0], a[1])
	case "bvule":
		return tb.Ule(a[0], a[1])
	case "bvslt":
		return tb.Slt(a[0], a[1])
	case "bvsle":
		return tb.Sle(a[0], a[1])
	case "extract":
		return tb.Extract(t.P1, t.P2, a[0])
	case "zext":
		return tb.ZExt(a[0], t.Sort.W)
	case "sext":
		return tb.SExt(a[0], t.Sort.W)
	case "concat":
		return tb.Concat(a[0], a[1])
	case "forall":
		return tb.Forall(t.Bound, a[0])
	case "exists":
		return tb.Exists(t.Bound, a[0])
	}
	if strings.HasPrefix(t.Op, "uf:") {
		return tb.UF(t.Name, t.Sort, a...)
	}
	panic("rebuild: unknown op " + t.Op)
}

// ---------------------------------------------------------------- printing

// Printer renders a set of root terms as SMT-LIB2 definitions. Shared ground
// subterms become (define-fun nK () S ...); terms containing bound variables are
// printed inline.
type Printer struct {
	tb      *TB
	names   map[int]string
	sb      strings.Builder
	usedUF  map[string]bool
	usedSym map[string]Sort
	body    strings.Builder
	refs    map[int]int
}

func NewPrinter(tb *TB) *Printer {
	return &Printer{tb: tb, names: map[int]string{}, usedUF: map[string]bool{}, usedSym: map[string]Sort{}, refs: map[int]int{}}
}

func (p *Printer) count(t *Term) {
	p.refs[t.id]++
	if p.refs[t.id] > 1 {
		return
	}
	for _, a := range t.Args {
		p.count(a)
	}
}

func smtName(s string) string {
	ok := true
	for _, c := range s {
		if !(c >= 'a' && c <= 'z' || c >= 'A' && c <= 'Z' || c >= '0' && c <= '9' || c == '_' || c == '.' || c == '$' || c == '!' || c == '@' || c == '#') {
			ok = false
			break
		}
	}
	if ok && s != "" && !(s[0] >= '0' && s[0] <= '9') {
		return s
	}
	return "|" + strings.ReplaceAll(s, "|", "!") + "|"
}

func (p *Printer) ref(t *Term) string {
	if n, ok := p.names[t.id]; ok {
		return n
	}
	switch t.Op {
	case "true", "false":
		return t.Op
	case "bv":
		if t.Sort.W%4 == 0 {
			return fmt.Sprintf("#x%0*s", t.Sort.W/4, t.Val.Text(16))
		}
		return fmt.Sprintf("#b%0*s", t.Sort.W, t.Val.Text(2))
	case "sym":
		p.usedSym[t.Name] = t.Sort
		return smtName(t.Name)
	case "bvar":
		return smtName(t.Name)
	}
	s := p.render(t)
	if t.hasBV || p.refs[t.id] <= 1 && len(s) < 200 {
		return s
	}
	n := fmt.Sprintf("n%d", t.id)
	fmt.Fprintf(&p.body, "(define-fun %s () %s %s)\n", n, t.Sort, s)
	p.names[t.id] = n
	return n
}

func (p *Printer) render(t *Term) string {
	var sb strings.Builder
	switch {
	case t.Op == "extract":
		fmt.Fprintf(&sb, "((_ extract %d %d) %s)", t.P1, t.P2, p.ref(t.Args[0]))
	case t.Op == "zext":
		fmt.Fprintf(&sb, "((_ zero_extend %d) %s)", t.P1, p.ref(t.Args[0]))
	case t.Op == "sext":
		fmt.Fprintf(&sb, "((_ sign_extend %d) %s)", t.P1, p.ref(t.Args[0]))
	case t.Op == "forall" || t.Op == "exists":
		sb.WriteString("(" + t.Op + " (")
		for _, v := range t.Bound {
			fmt.Fprintf(&sb, "(%s %s)", smtName(v.Name), v.Sort)
		}
		// subterms of the body that mention the bound variable cannot be named at top level;
		// the shared ones are bound by nested lets inside the quantifier (no exponential text)
		body := t.Args[0]
		var order []*Term
		seen := map[int]bool{}
		var walk func(x *Term)
		walk = func(x *Term) {
			if !x.hasBV || seen[x.id] {
				return
			}
			seen[x.id] = true
			if _, named := p.names[x.id]; named {
				return
			}
			if x.Op == "forall" || x.Op == "exists" {
				return // names its own shared subterms
			}
			for _, a := range x.Args {
				walk(a)
			}
			if p.refs[x.id] > 1 && x.Op != "bvar" && x != body {
				order = append(order, x)
			}
		}
		walk(body)
		nlet := 0
		sb.WriteString(") ")
		for _, x := range order {
			s := p.render(x)
			if len(s) < 40 {
				continue
			}
			n := fmt.Sprintf("l%d", x.id)
			sb.WriteString("(let ((" + n + " " + s + ")) ")
			p.names[x.id] = n
			nlet++
		}
		sb.WriteString(p.ref(body) + strings.Repeat(")", nlet) + ")")
		for _, x := range order {
			delete(p.names, x.id) // out of scope
		}
	case strings.HasPrefix(t.Op, "uf:"):
		p.usedUF[t.Name] = true
		if len(t.Args) == 0 {
			sb.WriteString(smtName(t.Name))
		} else {
			sb.WriteString("(" + smtName(t.Name))
			for _, a := range t.Args {
				sb.WriteString(" " + p.ref(a))
			}
			sb.WriteString(")")
		}
	default:
		sb.WriteString("(" + t.Op)
		for _, a := range t.Args {
			sb.WriteString(" " + p.ref(a))
		}
		sb.WriteString(")")
	}
	return sb.String()
}

// Script builds a complete query: declarations, definitions, assertions, check-sat.
// getValues are terms whose value is requested after a sat answer.
func (p *Printer) Script(asserts []*Term, getValues []*Term, logic string) string {
	for _, a := range asserts {
		p.count(a)
	}
	for _, a := range getValues {
		p.count(a)
	}
	var as []string
	for _, a := range asserts {
		as = append(as, p.ref(a))
	}
	var gv []string
	for _, a := range getValues {
		gv = append(gv, p.ref(a))
	}
	var out strings.Builder
	out.WriteString("(set-option :produce-models true)\n")
	if logic != "" {
		out.WriteString("(set-logic " + logic + ")\n")
	}
	out.WriteString("(declare-sort Str 0)\n")
	var sn []string
	for n := range p.usedSym {
		sn = append(sn, n)
	}
	sort.Strings(sn)
	for _, n := range sn {
		fmt.Fprintf(&out, "(declare-fun %s () %s)\n", smtName(n), p.usedSym[n])
	}
	var un []string
	for n := range p.usedUF {
		un = append(un, n)
	}
	sort.Strings(un)
	for _, n := range un {
		d := p.tb.ufs[n]
		var as []string
		for _, s := range d.Args {
			as = append(as, s.String())
		}
		fmt.Fprintf(&out, "(declare-fun %s (%s) %s)\n", smtName(n), strings.Join(as, " "), d.Ret)
	}
	out.WriteString(p.body.String())
	for _, a := range as {
		out.WriteString("(assert " + a + ")\n")
	}
	out.WriteString("(check-sat)\n")
	if len(gv) > 0 {
		out.WriteString("(get-value (" + strings.Join(gv, " ") + "))\n")
	}
	return out.String()
}

// Syms collects free symbols and UF names of a term (for cone-of-influence pruning).
func (tb *TB) Syms(t *Term, into map[string]bool, seen map[int]bool) {
	if seen[t.id] {
		return
	}
	seen[t.id] = true
	switch {
	case t.Op == "sym":
		into[t.Name] = true
	case strings.HasPrefix(t.Op, "uf:"):
		into["uf:"+t.Name] = true
	}
	for _, a := range t.Args {
		tb.Syms(a, into, seen)
	}
}
