package main

// Read-only package-level variables. A global that no function of the module
// other than package initialisers can write (no store through an address derived
// from it, and the address never escapes) has, at every function entry, the
// content its package initialiser gave it. That content is obtained by running
// the initialiser symbolically (spec mode) and overlaying the resulting object
// onto the entry memory of the unit.

import (
	"go/types"
	"strings"

	"golang.org/x/tools/go/ssa"
)

func (w *World) buildGlobalIndex() {
	if w.globalWritten != nil {
		return
	}
	w.globalWritten = map[*ssa.Global]bool{}
	var scan func(fn *ssa.Function)
	scan = func(fn *ssa.Function) {
		isInit := fn.Name() == "init" && fn.Synthetic != ""
		// derived: values that are addresses into a global
		derived := map[ssa.Value]*ssa.Global{}
		var originOf func(v ssa.Value) *ssa.Global
		originOf = func(v ssa.Value) *ssa.Global {
			if g, ok := v.(*ssa.Global); ok {
				return g
			}
			return derived[v]
		}
		for _, b := range fn.Blocks {
			for _, in := range b.Instrs {
				switch x := in.(type) {
				case *ssa.FieldAddr:
					if g := originOf(x.X); g != nil {
						derived[x] = g
					}
				case *ssa.IndexAddr:
					if g := originOf(x.X); g != nil {
						derived[x] = g
					}
				case *ssa.Slice:
					if g := originOf(x.X); g != nil {
						derived[x] = g // a slice of a global array aliases it
					}
				case *ssa.ChangeType:
					if g := originOf(x.X); g != nil {
						derived[x] = g
					}
				case *ssa.Convert:
					if g := originOf(x.X); g != nil {
						derived[x] = g
					}
				case *ssa.UnOp:
					// load: fine for the variable itself; a loaded map value must only be read
					if g, ok := x.X.(*ssa.Global); ok {
						if _, isMap := x.Type().Underlying().(*types.Map); isMap && !isInit {
							for _, ref := range *x.Referrers() {
								switch r := ref.(type) {
								case *ssa.Lookup, *ssa.Range, *ssa.DebugRef:
								case *ssa.Call:
									if b, ok := r.Call.Value.(*ssa.Builtin); !ok || b.Name() != "len" {
										w.globalWritten[g] = true
									}
								default:
									w.globalWritten[g] = true
								}
							}
						}
					}
				case *ssa.Store:
					if g := originOf(x.Addr); g != nil && !isInit {
						w.globalWritten[g] = true
					}
					if g := originOf(x.Val); g != nil {
						w.globalWritten[g] = true // address stored somewhere: escapes
					}
				case *ssa.DebugRef:
				default:
					// any other use of a global-derived address (call argument, MakeInterface,
					// phi, return, ...) lets it escape
					var ops []*ssa.Value
					for _, op := range in.Operands(ops) {
						if *op == nil {
							continue
						}
						if g := originOf(*op); g != nil {
							if c, ok := in.(ssa.CallInstruction); ok && isReadOnlyBuiltinUse(c, *op) {
								continue
							}
							w.globalWritten[g] = true
						}
					}
				}
			}
		}
		for _, a := range fn.AnonFuncs {
			scan(a)
		}
	}
	for path, sp := range w.spkgs {
		if !strings.HasPrefix(path, modPath) {
			continue
		}
		for _, m := range sp.Members {
			switch x := m.(type) {
			case *ssa.Function:
				scan(x)
			case *ssa.Type:
				for _, t := range []bool{false, true} {
					var ms = w.prog.MethodSets.MethodSet(x.Type())
					if t {
						ms = w.prog.MethodSets.MethodSet(ptrTo(x.Type()))
					}
					for i := 0; i < ms.Len(); i++ {
						if fn := w.prog.MethodValue(ms.At(i)); fn != nil && fn.Pkg == sp {
							scan(fn)
						}
					}
				}
			}
		}
	}
}

func isReadOnlyBuiltinUse(c ssa.CallInstruction, v ssa.Value) bool {
	b, ok := c.Common().Value.(*ssa.Builtin)
	if !ok {
		return false
	}
	switch b.Name() {
	case "len", "cap":
		return true
	case "copy":
		return len(c.Common().Args) == 2 && c.Common().Args[1] == v && c.Common().Args[0] != v
	}
	return false
}

// referencedGlobals: globals mentioned by fn or by functions it may call statically (bounded depth).
func referencedGlobals(fn *ssa.Function, into map[*ssa.Global]bool, seen map[*ssa.Function]bool, depth int) {
	if fn == nil || seen[fn] || depth > 8 {
		return
	}
	seen[fn] = true
	for _, b := range fn.Blocks {
		for _, in := range b.Instrs {
			var ops []*ssa.Value
			for _, op := range in.Operands(ops) {
				if *op == nil {
					continue
				}
				switch x := (*op).(type) {
				case *ssa.Global:
					into[x] = true
				case *ssa.Function:
					referencedGlobals(x, into, seen, depth+1)
				case *ssa.MakeClosure:
					if f2, ok := x.Fn.(*ssa.Function); ok {
						referencedGlobals(f2, into, seen, depth+1)
					}
				}
			}
		}
	}
	for _, a := range fn.AnonFuncs {
		referencedGlobals(a, into, seen, depth+1)
	}
}

// installGlobals overlays the initial content of the read-only globals referenced by
// the given functions onto mem.
func (u *Unit) installGlobals(mem MemState, fns ...*ssa.Function) MemState {
	w := u.W
	w.buildGlobalIndex()
	refs := map[*ssa.Global]bool{}
	seen := map[*ssa.Function]bool{}
	for _, fn := range fns {
		referencedGlobals(fn, refs, seen, 0)
	}
	byPkg := map[*ssa.Package][]*ssa.Global{}
	for g := range refs {
		if w.globalWritten[g] || g.Pkg == nil || !strings.HasPrefix(g.Pkg.Pkg.Path(), modPath) {
			continue
		}
		if strings.HasPrefix(g.Name(), "init$") {
			continue
		}
		byPkg[g.Pkg] = append(byPkg[g.Pkg], g)
	}
	for sp, gs := range byPkg {
		ctr0 := u.objCtr
		mem = mem.clone()
		u.addMapTypes(&mem, sp.Func("init"))
		initMem, ok := u.runInit(sp, mem)
		if !ok {
			u.note("initial values of the package-level variables of " + sp.Pkg.Path() + " are not modelled (initialiser outside the supported subset)")
			continue
		}
		tb := u.tb
		mem = mem.clone()
		for _, g := range gs {
			id := tb.BV(32, w.globalID(g))
			for k, m := range mem.m {
				mem.m[k] = u.mc.ObjRange(m, id, id, initMem.m[k])
			}
			u.roGlobals = append(u.roGlobals, g.Pkg.Pkg.Name()+"."+g.Name())
		}
		// map objects created by the initialiser (contents of read-only map variables)
		if u.objCtr > ctr0 {
			lo, hi := tb.BVU(32, uint64(freshBase+ctr0+1)), tb.BVU(32, uint64(freshBase+u.objCtr))
			for k, m := range mem.mp {
				if src, ok := initMem.mp[k]; ok && src != m {
					mem.mp[k] = u.mc.mnode(&MapNode{kind: mpObjRange, sort: m.sort, prev: m, obj: lo, limit: hi, fresh: src})
				}
			}
			k := mapLenKey // map lengths
			for _, id := range u.mapObjs {
				if id > ctr0 && id <= u.objCtr {
					o := tb.BVU(32, uint64(freshBase+id))
					mem.m[k] = u.mc.ObjRange(mem.m[k], o, o, initMem.m[k])
				}
			}
		}
	}
	return mem
}

// runInit executes the package initialiser in spec mode, starting from a memory in
// which every global of the package is zero. Calls are treated as pure (their
// results are fresh values).
func (u *Unit) runInit(sp *ssa.Package, base MemState) (out MemState, ok bool) {
	initFn := sp.Func("init")
	if initFn == nil || len(initFn.Blocks) == 0 {
		return base, false
	}
	defer func() {
		if r := recover(); r != nil {
			ok = false
		}
	}()
	tb := u.tb
	f := &Frame{u: u, fn: initFn, vals: map[ssa.Value][]*Term{}, spec: true, depth: maxInlineDepth - 3}
	f.cur = BState{reach: tb.True(), mem: base.clone()}
	// every global of the package starts out zero
	for _, m := range sp.Members {
		g, isG := m.(*ssa.Global)
		if !isG {
			continue
		}
		et := elemOfPointer(g.Type())
		id := tb.BV(32, u.W.globalID(g))
		f.zeroInit(id, tb.BV(64, u.W.layout.Size(et)), u.W.layout.ElemSorts(et))
	}
	for _, b := range initFn.Blocks {
		for _, in := range b.Instrs {
			switch x := in.(type) {
			case *ssa.If, *ssa.Jump, *ssa.Return, *ssa.Phi:
				continue
			case *ssa.Call:
				if cf, isF := x.Call.Value.(*ssa.Function); isF && (cf.Name() == "init" || strings.HasPrefix(cf.Name(), "init#")) {
					continue
				}
				f.instr(in)
			default:
				f.instr(in)
			}
		}
	}
	return f.cur.mem, true
}

func elemOfPointer(t types.Type) types.Type { return t.Underlying().(*types.Pointer).Elem() }
func ptrTo(t types.Type) types.Type          { return types.NewPointer(t) }

// inSomeGlobal reports whether a value of type t may be (part of) a package-level variable of
// any loaded package: t is the type of such a variable or of a field / array element nested
// in one. A pointer to any other type never points into a package-level variable.
func (w *World) inSomeGlobal(t types.Type) bool {
	w.globTypesOnce.Do(func() {
		var add func(t types.Type, depth int)
		add = func(t types.Type, depth int) {
			if depth > 12 || w.globTypes.At(t) != nil {
				return
			}
			w.globTypes.Set(t, true)
			if u := t.Underlying(); u != t {
				w.globTypes.Set(u, true)
			}
			switch ut := t.Underlying().(type) {
			case *types.Struct:
				for i := 0; i < ut.NumFields(); i++ {
					add(ut.Field(i).Type(), depth+1)
				}
			case *types.Array:
				add(ut.Elem(), depth+1)
			}
		}
		for _, sp := range w.prog.AllPackages() {
			for _, m := range sp.Members {
				if g, ok := m.(*ssa.Global); ok {
					add(elemOfPointer(g.Type()), 0)
				}
			}
		}
	})
	if w.globTypes.At(t) != nil {
		return true
	}
	// unnamed / basic element types (byte, int, ...): compare by underlying type as well
	return w.globTypes.At(t.Underlying()) != nil
}
