package main

import (
	"fmt"
	"go/types"
	"runtime/debug"
	"strings"

	"golang.org/x/tools/go/ssa"
)

func shortPkg(pp string) string {
	pp = strings.TrimPrefix(pp, modPath+"/")
	if i := strings.LastIndex(pp, "/"); i >= 0 {
		pp = pp[i+1:]
	}
	return pp
}

func (w *World) newUnit(name, kind string, con *Contract) *Unit {
	tb := NewTB()
	u := &Unit{Name: name, Kind: kind, W: w, tb: tb, mc: NewMemCtx(tb), Trusted: map[string]bool{}, strConst: map[string]*Term{},
		oblNames: map[string]int{}, Contract: con, unsafeCasts: map[*ssa.Convert]types.Type{},
		closures: map[*ssa.MakeClosure]*closureInfo{}, closureByEnv: map[int]*closureInfo{}, inlineStack: map[*ssa.Function]bool{}}
	if con != nil {
		u.Props = con.Props
	}
	u.M0 = MemState{m: map[string]*MemNode{}, mp: map[string]*MapNode{}}
	u.rangeOf = map[*ssa.Range]ssa.Value{}
	inputBound := tb.BVU(32, freshBase)
	for _, s := range []Sort{BoolSort, BVSort(8), BVSort(16), BVSort(32), BVSort(64), StrSort} {
		u.M0.m[s.Key()] = u.mc.NewBase("m0", s, inputBound)
	}
	u.M0.m[mapLenKey] = u.mc.NewBase("m0len", BV64, inputBound)
	u.mc.onBaseRead = func(base *MemNode, obj, off, val *Term) {
		// nothing here: validity of loaded references is asserted per typed load (loadFacts);
		// references stored in the initial memory belong to the input world
		_ = base
	}
	return u
}

// symbolic input of type t
func (u *Unit) input(name string, t types.Type) []*Term {
	ss := u.W.layout.Slots(t)
	out := make([]*Term, len(ss))
	for i, s := range ss {
		out[i] = u.tb.Sym(fmt.Sprintf("in!%s!%d", name, i), s)
	}
	for _, fact := range u.validFacts(t, out, u.tb.BVU(32, freshBase)) {
		u.addFact(fact)
	}
	u.strFacts(out)
	u.Inputs = append(u.Inputs, InputDesc{Name: name, Type: t, Slots: out})
	return out
}

func (w *World) BuildFuncUnit(con *Contract) (u *Unit) {
	pp := pkgPathOfDir(w.repo, con.PkgDir)
	name := shortPkg(pp) + "." + con.Target
	u = w.newUnit(name, "func", con)
	defer func() {
		if r := recover(); r != nil {
			if ue, ok := r.(unsupportedErr); ok {
				u.Failed = ue.Error()
			} else {
				u.Failed = fmt.Sprintf("encoder panic: %v\n%s", r, debug.Stack())
			}
		}
	}()
	fn := w.findFunc(pp, con.Target)
	if fn == nil {
		u.Failed = "function " + con.Target + " not found (contract no longer binds)"
		return
	}
	u.Fn = fn
	tb := u.tb
	f := &Frame{u: u, fn: fn, vals: map[ssa.Value][]*Term{}, inl: map[string]bool{}}
	for _, n := range con.Inline {
		f.inl[n] = true
	}
	var pvals [][]*Term
	for _, p := range fn.Params {
		v := u.input(p.Name(), p.Type())
		f.set(p, v)
		pvals = append(pvals, v)
	}
	u.initMaps(fn, w.stubs[con])
	u.M0 = u.installGlobals(u.M0, fn, w.stubs[con])
	// captured variables of a closure: cells in fresh-world objects holding symbolic values
	mem := u.M0
	f.cur = BState{reach: tb.True(), mem: mem}
	var captured [][]*Term
	for _, fv := range fn.FreeVars {
		et := fv.Type().Underlying().(*types.Pointer).Elem()
		v := u.input("cap_"+fv.Name(), et)
		obj := f.allocObj()
		f.storeTo(obj, tb.BV(64, 0), v)
		f.freeVars = append(f.freeVars, []*Term{obj, tb.BV(64, 0)})
		captured = append(captured, v)
	}
	mem = f.cur.mem
	entryMem := mem
	stub := w.stubs[con]
	nres := fn.Signature.Results().Len()
	// the contract may name only some of the captured variables (a literal that comes to capture
	// one more variable still binds)
	nStubCaps := len(stub.Params) - len(fn.Params) - nres
	if nStubCaps < 0 || nStubCaps > len(captured) {
		u.Failed = fmt.Sprintf("contract %s: stub has %d parameters, function has %d params + %d results + %d captures", con.Key(), len(stub.Params), len(fn.Params), nres, len(captured))
		return
	}
	// captured variables are bound by name (the order in which go/ssa lists them depends on
	// the order of first use in the literal); types must agree
	{
		byName := map[string]int{}
		for i, fv := range fn.FreeVars {
			byName[fv.Name()] = i
		}
		ordered := make([][]*Term, nStubCaps)
		for k := 0; k < nStubCaps; k++ {
			sp := stub.Params[len(fn.Params)+nres+k]
			i, ok := byName[sp.Name()]
			if !ok {
				u.Failed = fmt.Sprintf("contract %s: the literal does not capture a variable named %s", con.Key(), sp.Name())
				return
			}
			et := fn.FreeVars[i].Type().Underlying().(*types.Pointer).Elem()
			if !types.Identical(sp.Type(), et) {
				u.Failed = fmt.Sprintf("contract %s: capture %s is %s in the code, %s in the contract", con.Key(), sp.Name(), et, sp.Type())
				return
			}
			ordered[k] = captured[i]
		}
		captured = ordered
	}
	// pass A: requires + assigns (results are dummies)
	var dummies [][]*Term
	for i := 0; i < nres; i++ {
		dummies = append(dummies, u.freshValue("dummy", fn.Signature.Results().At(i).Type()))
	}
	valsA := append(append(append([][]*Term{}, pvals...), dummies...), captured...)
	u.oldMem = entryMem
	stA := f.evalStub(con, valsA, entryMem, &entryMem, tb.BVU(32, freshBase), nil)
	for _, r := range stA.requires {
		u.addFact(r)
	}
	// a precondition "param == constant" lets the body be encoded with the constant
	// (constant divisors, table sizes, ... fold away); the equality stays as a fact
	for _, r := range stA.requires {
		if r.Op == "=" && (r.Args[0].Op == "sym" && r.Args[1].IsConst() || r.Args[1].Op == "sym" && r.Args[0].IsConst()) {
			sym, c := r.Args[0], r.Args[1]
			if sym.Op != "sym" {
				sym, c = c, sym
			}
			for _, p := range fn.Params {
				pv := f.vals[p]
				for i := range pv {
					if pv[i] == sym {
						nv := append([]*Term{}, pv...)
						nv[i] = c
						f.set(p, nv)
						pv = nv
					}
				}
			}
		}
	}
	for _, name := range con.NoEscape {
		for _, p := range fn.Params {
			if p.Name() != name {
				continue
			}
			switch p.Type().Underlying().(type) {
			case *types.Slice, *types.Pointer:
				u.noEscapeObjs = append(u.noEscapeObjs, f.val(p)[0])
				u.Trusted["no reference to the backing array of parameter "+name+" of "+con.Target+" exists in memory when it is called (caller's buffer)"] = true
			}
		}
	}
	u.addCover("requires", tb.True(), f.pos(fn.Pos()))
	if !con.Flags["noframe"] {
		f.frame = &frameSpec{regions: stA.regions, active: true}
	}
	if con.Flags["maypanic"] {
		u.mayPanic = true
	}
	u.noInfer = con.Flags["noinfer"]
	if con.Flags["nonblocking"] {
		u.nonBlocking = true
		u.Trusted["sequential semantics for channels in "+con.Target+": no receiver runs concurrently, a send needs room in the queue"] = true
	}
	if con.Flags["explicitpanic"] {
		u.explicitPanicOK = true
		u.Trusted["explicit panic(...) statements in "+con.Target+" (internal consistency checks) are not proved unreachable"] = true
	}
	f.cur = BState{reach: tb.True(), mem: entryMem}
	res, out := f.run(f.cur)
	if out.reach.IsFalse() {
		u.note("function never returns normally under its precondition")
		return
	}
	u.addCover("return", out.reach, f.pos(fn.Pos()))
	// pass B: ensures
	var rvals [][]*Term
	off := 0
	for i := 0; i < nres; i++ {
		n := int(w.layout.Size(fn.Signature.Results().At(i).Type()))
		rvals = append(rvals, res[off:off+n])
		off += n
	}
	valsB := append(append(append([][]*Term{}, pvals...), rvals...), captured...)
	f.cur = out
	stB := f.evalStub(con, valsB, entryMem, &out.mem, tb.BVU(32, freshBase), nil)
	for i, e := range stB.ensures {
		u.addObl("post", fmt.Sprintf("ensures%d", i+1), out.reach, e, f.pos(stB.ensPos[i]), fmt.Sprintf("postcondition %d of %s", i+1, con.Key()))
		// a proved postcondition may be used for the ones written after it (a contract can state
		// the pieces of a large predicate first and the predicate last)
		if !e.hasBV {
			u.addFact(tb.Implies(out.reach, e))
		}
	}
	return
}

func (w *World) BuildLemmaUnit(con *Contract) (u *Unit) {
	pp := pkgPathOfDir(w.repo, con.PkgDir)
	name := shortPkg(pp) + "." + con.Target
	u = w.newUnit(name, "lemma", con)
	defer func() {
		if r := recover(); r != nil {
			if ue, ok := r.(unsupportedErr); ok {
				u.Failed = ue.Error()
			} else {
				u.Failed = fmt.Sprintf("encoder panic: %v\n%s", r, debug.Stack())
			}
		}
	}()
	fn := w.stubs[con]
	u.Fn = fn
	tb := u.tb
	f := &Frame{u: u, fn: fn, vals: map[ssa.Value][]*Term{}, inl: map[string]bool{}}
	for _, n := range con.Inline {
		f.inl[n] = true
	}
	u.lemmaMode = true
	u.noInfer = con.Flags["noinfer"]
	u.initMaps(fn)
	u.M0 = u.installGlobals(u.M0, fn)
	for _, p := range fn.Params {
		f.set(p, u.input(p.Name(), p.Type()))
	}
	u.oldMem = u.M0
	f.run(BState{reach: tb.True(), mem: u.M0})
	nAssert := 0
	for _, o := range u.obls {
		if o.Class == "lemma" {
			nAssert++
		}
	}
	if nAssert == 0 {
		u.Failed = "lemma has no assertion"
	}
	// vacuity: the assumptions of the lemma are satisfiable together
	u.addCover("assumptions", tb.True(), f.pos(fn.Pos()))
	return
}
