package main

// Contracts live in /repo/<pkg>/contracts_verif.go: a file with a
// "//go:build verif" constraint, a package clause and nothing but //@ comment
// lines. This file parses them and generates, per package, a Go source file
// (never written to /repo: it is handed to go/packages as an overlay) in which
// every contract is a stub function whose body is the contract's clauses as calls
// to intrinsics. The clauses are thereby type-checked by go/types and compiled to
// SSA by the same front end as the code they describe, and the encoder evaluates
// them with the same SSA->SMT translation.
//
// Syntax (each line starts with //@):
//
//   contract <Func> | contract (<*T>).<Method> | contract <Func>$<k> captures (a T, b U)
//   extern <pkgpath>.<Func>(params) (results)      assumed contract of a function outside /repo
//   loop <Func> <k> [locals (a T, b U)]             invariant block of the k-th loop (source order)
//   lemma <name>(params)                            ghost harness; body lines are Go statements
//   spec                                            Go declarations copied verbatim (pure helper funcs)
//   property C01,C07        properties the unit belongs to
//   requires E / ensures E / invariant E / assigns a, b / let x := E / decreases E
//   inline f, g             (lemma) callees to expand from their bodies rather than contracts
//   flag maypanic|trusted|pure|noframe
//   | <text>                continuation of the previous clause / verbatim Go statement line
//   end

import (
	"fmt"
	"go/ast"
	"go/build/constraint"
	"go/parser"
	"go/token"
	"os"
	"path/filepath"
	"regexp"
	"sort"
	"strings"
)

type Clause struct {
	Kind string // requires ensures invariant assigns let decreases go
	Text string
	Line int
}

type Contract struct {
	Kind     string // func closure extern loop lemma spec
	PkgDir   string
	PkgName  string
	Target   string // "BinTimestamp", "(*LocalBuffer).Add", "generateCompareValue$3", "bytes.Equal"
	LoopOrd  int
	Props    []string
	Header   string // raw header remainder
	Clauses  []Clause
	Inline   []string
	NoEscape []string // parameters whose backing array must not be retained (stored) by the function
	TrustPre []string // callees whose preconditions are assumed (not proved) at this function's call sites
	Flags    map[string]bool
	File     string
	Line     int
	StubName string
	// stub signature pieces (source text)
	ParamText   string // "l *LocalBuffer, epHash []byte"
	ResultText  string // "ok bool"
	ExtraText   string // captures / locals
	NParams     int
	NResults    int
	NExtra      int
	ParamNames  []string
	ResultNames []string
	ExtraNames  []string
	Body        []string // lemma/spec verbatim
}

func (c *Contract) Key() string {
	if c.Kind == "loop" {
		return fmt.Sprintf("%s#loop%d", c.Target, c.LoopOrd)
	}
	return c.Target
}

// extraImports: imports requested by contract files ("//@ import [name] "path""), per package directory
var extraImports = map[string]map[string]string{}

var importRe = regexp.MustCompile(`^import\s+(?:(\w+)\s+)?"([^"]+)"$`)

var kwRe = regexp.MustCompile(`^(shared|contract|extern|model|loop|lemma|spec|property|requires|ensures|invariant|assigns|let|decreases|inline|noescape|trustpre|flag|go|end)\b\s*(.*)$`)

func parseContractFile(path string) ([]*Contract, string, error) {
	data, err := os.ReadFile(path)
	if err != nil {
		return nil, "", err
	}
	lines := strings.Split(string(data), "\n")
	var out []*Contract
	var cur *Contract
	pkgName := ""
	var lastClause *Clause
	for i, ln := range lines {
		t := strings.TrimSpace(ln)
		if strings.HasPrefix(t, "package ") {
			pkgName = strings.TrimSpace(strings.TrimPrefix(t, "package "))
			continue
		}
		if !strings.HasPrefix(t, "//@") {
			continue
		}
		body := strings.TrimPrefix(t, "//@")
		if strings.HasPrefix(body, " ") {
			body = body[1:]
		}
		tb := strings.TrimSpace(body)
		if tb == "" {
			continue
		}
		if strings.HasPrefix(tb, "|") {
			txt := strings.TrimPrefix(strings.TrimPrefix(tb, "|"), " ")
			if cur == nil {
				return nil, "", fmt.Errorf("%s:%d: continuation outside block", path, i+1)
			}
			if cur.Kind == "lemma" || cur.Kind == "spec" {
				cur.Body = append(cur.Body, txt)
			} else if lastClause != nil {
				lastClause.Text += "\n" + txt
			} else {
				return nil, "", fmt.Errorf("%s:%d: continuation without clause", path, i+1)
			}
			continue
		}
		if im := importRe.FindStringSubmatch(tb); im != nil {
			name := im[1]
			if name == "" {
				name = im[2][strings.LastIndex(im[2], "/")+1:]
			}
			d := filepath.Dir(path)
			if extraImports[d] == nil {
				extraImports[d] = map[string]string{}
			}
			extraImports[d][name] = im[2]
			continue
		}
		m := kwRe.FindStringSubmatch(tb)
		if m == nil {
			return nil, "", fmt.Errorf("%s:%d: unknown contract line %q", path, i+1, tb)
		}
		kw, rest := m[1], strings.TrimSpace(m[2])
		if kw == "shared" {
			continue // file-level marker: load this file for every property
		}
		// strip trailing line comment
		switch kw {
		case "contract", "extern", "model", "loop", "lemma", "spec":
			if cur != nil {
				return nil, "", fmt.Errorf("%s:%d: missing 'end' before new block", path, i+1)
			}
			cur = &Contract{Kind: kw, Header: rest, File: path, Line: i + 1, PkgDir: filepath.Dir(path), PkgName: pkgName, Flags: map[string]bool{}}
			lastClause = nil
		case "end":
			if cur == nil {
				return nil, "", fmt.Errorf("%s:%d: stray end", path, i+1)
			}
			out = append(out, cur)
			cur = nil
		default:
			if cur == nil {
				return nil, "", fmt.Errorf("%s:%d: clause outside block", path, i+1)
			}
			switch kw {
			case "property":
				for _, p := range strings.Split(rest, ",") {
					if p = strings.TrimSpace(p); p != "" {
						cur.Props = append(cur.Props, p)
					}
				}
			case "inline":
				for _, p := range strings.Split(rest, ",") {
					if p = strings.TrimSpace(p); p != "" {
						cur.Inline = append(cur.Inline, p)
					}
				}
			case "trustpre":
				for _, p := range strings.Split(rest, ",") {
					if p = strings.TrimSpace(p); p != "" {
						cur.TrustPre = append(cur.TrustPre, p)
					}
				}
			case "noescape":
				for _, p := range strings.Split(rest, ",") {
					if p = strings.TrimSpace(p); p != "" {
						cur.NoEscape = append(cur.NoEscape, p)
					}
				}
			case "flag":
				for _, p := range strings.Split(rest, ",") {
					if p = strings.TrimSpace(p); p != "" {
						cur.Flags[p] = true
					}
				}
			default:
				cur.Clauses = append(cur.Clauses, Clause{Kind: kw, Text: rest, Line: i + 1})
				lastClause = &cur.Clauses[len(cur.Clauses)-1]
			}
		}
	}
	if cur != nil {
		return nil, "", fmt.Errorf("%s: unterminated block starting at line %d", path, cur.Line)
	}
	return out, pkgName, nil
}

// ---------------------------------------------------------------- signature lookup (syntax only)

type pkgSyntax struct {
	dir     string
	name    string
	files   []*ast.File
	fset    *token.FileSet
	imports map[string]string // local name -> path (union over files)
}

func buildTagsMatch(path string, tags map[string]bool) bool {
	data, err := os.ReadFile(path)
	if err != nil {
		return false
	}
	for _, ln := range strings.Split(string(data), "\n") {
		t := strings.TrimSpace(ln)
		if strings.HasPrefix(t, "package ") {
			break
		}
		if constraint.IsGoBuild(t) {
			e, err := constraint.Parse(t)
			if err != nil {
				return false
			}
			return e.Eval(func(tag string) bool { return tags[tag] })
		}
	}
	// import "C" requires cgo
	if strings.Contains(string(data), "\nimport \"C\"") && !tags["cgo"] {
		return false
	}
	return true
}

func loadPkgSyntax(dir string, tags map[string]bool) (*pkgSyntax, error) {
	ents, err := os.ReadDir(dir)
	if err != nil {
		return nil, err
	}
	ps := &pkgSyntax{dir: dir, fset: token.NewFileSet(), imports: map[string]string{}}
	for _, e := range ents {
		n := e.Name()
		if !strings.HasSuffix(n, ".go") || strings.HasSuffix(n, "_test.go") {
			continue
		}
		p := filepath.Join(dir, n)
		if !buildTagsMatch(p, tags) {
			continue
		}
		// GOOS/GOARCH file suffixes
		base := strings.TrimSuffix(n, ".go")
		skip := false
		for _, osn := range []string{"windows", "darwin", "freebsd", "openbsd", "netbsd", "solaris", "plan9", "js", "wasip1", "aix", "dragonfly", "illumos", "ios", "android"} {
			if strings.HasSuffix(base, "_"+osn) {
				skip = true
			}
		}
		for _, an := range []string{"386", "arm", "arm64", "mips", "mips64", "ppc64", "ppc64le", "riscv64", "s390x", "wasm"} {
			if strings.HasSuffix(base, "_"+an) {
				skip = true
			}
		}
		if skip {
			continue
		}
		f, err := parser.ParseFile(ps.fset, p, nil, parser.SkipObjectResolution)
		if err != nil {
			return nil, err
		}
		ps.files = append(ps.files, f)
		ps.name = f.Name.Name
		for _, im := range f.Imports {
			path := strings.Trim(im.Path.Value, `"`)
			name := ""
			if im.Name != nil {
				name = im.Name.Name
			} else {
				name = defaultImportName(path)
			}
			if name == "_" || name == "." {
				continue
			}
			ps.imports[name] = path
		}
	}
	return ps, nil
}

func defaultImportName(path string) string {
	parts := strings.Split(path, "/")
	n := parts[len(parts)-1]
	// major-version suffix
	if len(parts) > 1 && regexp.MustCompile(`^v[0-9]+$`).MatchString(n) {
		n = parts[len(parts)-2]
	}
	n = strings.TrimPrefix(n, "go-")
	if i := strings.Index(n, "."); i >= 0 {
		n = n[:i]
	}
	return strings.ReplaceAll(n, "-", "_")
}

func exprText(fset *token.FileSet, src map[string][]byte, e ast.Expr) string {
	p := fset.Position(e.Pos())
	q := fset.Position(e.End())
	data, ok := src[p.Filename]
	if !ok {
		d, _ := os.ReadFile(p.Filename)
		src[p.Filename] = d
		data = d
	}
	return string(data[p.Offset:q.Offset])
}

// findFuncDecl finds "Name" or "(*T).Name" / "(T).Name".
func (ps *pkgSyntax) findFuncDecl(target string) *ast.FuncDecl {
	recv, name := "", target
	if strings.HasPrefix(target, "(") {
		i := strings.Index(target, ").")
		recv = target[1:i]
		name = target[i+2:]
	}
	for _, f := range ps.files {
		for _, d := range f.Decls {
			fd, ok := d.(*ast.FuncDecl)
			if !ok || fd.Name.Name != name {
				continue
			}
			if recv == "" && fd.Recv == nil {
				return fd
			}
			if recv != "" && fd.Recv != nil && len(fd.Recv.List) == 1 {
				rt := recvTypeText(fd.Recv.List[0].Type)
				if rt == recv {
					return fd
				}
			}
		}
	}
	return nil
}

func recvTypeText(e ast.Expr) string {
	switch x := e.(type) {
	case *ast.StarExpr:
		return "*" + recvTypeText(x.X)
	case *ast.Ident:
		return x.Name
	case *ast.IndexExpr:
		return recvTypeText(x.X)
	case *ast.ParenExpr:
		return recvTypeText(x.X)
	}
	return "?"
}

// fieldListText renders a parameter list with every parameter named;
// prefix is used for unnamed ones.
func fieldListText(ps *pkgSyntax, src map[string][]byte, fl *ast.FieldList, prefix string, single string) (string, []string) {
	if fl == nil {
		return "", nil
	}
	var parts []string
	var names []string
	n := 0
	total := 0
	for _, f := range fl.List {
		if len(f.Names) == 0 {
			total++
		} else {
			total += len(f.Names)
		}
	}
	for _, f := range fl.List {
		tt := exprText(ps.fset, src, f.Type)
		if strings.HasPrefix(tt, "...") {
			tt = "[]" + tt[3:]
		}
		if len(f.Names) == 0 {
			nm := fmt.Sprintf("%s%d", prefix, n)
			if total == 1 && single != "" {
				nm = single
			}
			parts = append(parts, nm+" "+tt)
			names = append(names, nm)
			n++
			continue
		}
		for _, id := range f.Names {
			nm := id.Name
			if nm == "_" {
				nm = fmt.Sprintf("%s%d", prefix, n)
			}
			parts = append(parts, nm+" "+tt)
			names = append(names, nm)
			n++
		}
	}
	return strings.Join(parts, ", "), names
}

var parenListRe = regexp.MustCompile(`^\((.*)\)$`)

func splitParams(s string) (string, []string) {
	s = strings.TrimSpace(s)
	if m := parenListRe.FindStringSubmatch(s); m != nil {
		s = m[1]
	}
	if strings.TrimSpace(s) == "" {
		return "", nil
	}
	// names: first identifier of each comma-separated group at depth 0
	var names []string
	depth := 0
	start := 0
	var groups []string
	for i, c := range s {
		switch c {
		case '(', '[', '{':
			depth++
		case ')', ']', '}':
			depth--
		case ',':
			if depth == 0 {
				groups = append(groups, s[start:i])
				start = i + 1
			}
		}
	}
	groups = append(groups, s[start:])
	for _, g := range groups {
		f := strings.Fields(strings.TrimSpace(g))
		if len(f) > 0 {
			names = append(names, f[0])
		}
	}
	return s, names
}

// resolveSignature fills the stub signature of c from the package syntax / header.
func (c *Contract) resolveSignature(ps *pkgSyntax, src map[string][]byte) error {
	switch c.Kind {
	case "contract":
		h := c.Header
		capt := ""
		if i := strings.Index(h, " captures "); i >= 0 {
			capt = strings.TrimSpace(h[i+len(" captures "):])
			h = strings.TrimSpace(h[:i])
		}
		sig := ""
		if i := strings.Index(h, " sig "); i >= 0 {
			sig = strings.TrimSpace(h[i+len(" sig "):])
			h = strings.TrimSpace(h[:i])
		}
		c.Target = h
		if strings.Contains(h, "$") {
			c.Kind = "closure"
			// closure: signature given explicitly:  sig (params) (results)
			if sig == "" {
				return fmt.Errorf("%s:%d: closure contract needs 'sig (params) (results)'", c.File, c.Line)
			}
			ptxt, rtxt := splitSig(sig)
			c.ParamText, c.ParamNames = splitParams(ptxt)
			c.ResultText, c.ResultNames = splitParams(rtxt)
			c.ExtraText, c.ExtraNames = splitParams(capt)
		} else {
			c.Kind = "func"
			fd := ps.findFuncDecl(h)
			if fd == nil {
				return fmt.Errorf("%s:%d: function %s not found in %s", c.File, c.Line, h, ps.dir)
			}
			var parts []string
			if fd.Recv != nil {
				t, n := fieldListText(ps, src, fd.Recv, "recv", "recv")
				parts = append(parts, t)
				c.ParamNames = append(c.ParamNames, n...)
			}
			t, n := fieldListText(ps, src, fd.Type.Params, "arg", "")
			if t != "" {
				parts = append(parts, t)
			}
			c.ParamNames = append(c.ParamNames, n...)
			c.ParamText = strings.Join(parts, ", ")
			c.ResultText, c.ResultNames = fieldListText(ps, src, fd.Type.Results, "ret", "ret")
		}
	case "extern":
		// extern pkg/path.Func(params) (results)   or   extern (pkg/path.T).Method(params) (results)
		h := c.Header
		i := strings.Index(h, "(")
		if strings.HasPrefix(h, "(") {
			// method: find the ")." then next "("
			j := strings.Index(h, ").")
			k := strings.Index(h[j+2:], "(")
			i = j + 2 + k
		}
		c.Target = strings.TrimSpace(h[:i])
		ptxt, rtxt := splitSig(h[i:])
		c.ParamText, c.ParamNames = splitParams(ptxt)
		c.ResultText, c.ResultNames = splitParams(rtxt)
	case "loop":
		// loop <Func> <k> [locals (a T, b U)]
		h := c.Header
		loc := ""
		if i := strings.Index(h, " locals "); i >= 0 {
			loc = strings.TrimSpace(h[i+len(" locals "):])
			h = strings.TrimSpace(h[:i])
		}
		// optional explicit signature (for functions defined in a spec block: model programs)
		sig := ""
		if i := strings.Index(h, " sig "); i >= 0 {
			sig = strings.TrimSpace(h[i+len(" sig "):])
			h = strings.TrimSpace(h[:i])
		}
		fs := strings.Fields(h)
		if len(fs) != 2 {
			return fmt.Errorf("%s:%d: loop header must be '<Func> <k>'", c.File, c.Line)
		}
		c.Target = fs[0]
		fmt.Sscanf(fs[1], "%d", &c.LoopOrd)
		if strings.Contains(c.Target, "$") {
			return fmt.Errorf("%s:%d: loops in closures are not supported", c.File, c.Line)
		}
		if sig != "" {
			c.ParamText, c.ParamNames = splitParams(sig)
			c.ExtraText, c.ExtraNames = splitParams(loc)
			break
		}
		fd := ps.findFuncDecl(c.Target)
		if fd == nil {
			return fmt.Errorf("%s:%d: function %s not found", c.File, c.Line, c.Target)
		}
		var parts []string
		if fd.Recv != nil {
			t, n := fieldListText(ps, src, fd.Recv, "recv", "recv")
			parts = append(parts, t)
			c.ParamNames = append(c.ParamNames, n...)
		}
		t, n := fieldListText(ps, src, fd.Type.Params, "arg", "")
		if t != "" {
			parts = append(parts, t)
		}
		c.ParamNames = append(c.ParamNames, n...)
		c.ParamText = strings.Join(parts, ", ")
		c.ExtraText, c.ExtraNames = splitParams(loc)
	case "lemma":
		h := c.Header
		i := strings.Index(h, "(")
		if i < 0 {
			return fmt.Errorf("%s:%d: lemma needs a parameter list", c.File, c.Line)
		}
		c.Target = "lemma:" + strings.TrimSpace(h[:i])
		c.ParamText, c.ParamNames = splitParams(h[i:])
	case "spec":
		c.Target = "spec"
	case "model":
		// model <qualified target> <Go function declared in a spec block>
		fs := strings.Fields(c.Header)
		if len(fs) != 2 {
			return fmt.Errorf("%s:%d: model header must be '<target> <funcname>'", c.File, c.Line)
		}
		c.Target = fs[0]
		c.StubName = fs[1]
	}
	c.NParams, c.NResults, c.NExtra = len(c.ParamNames), len(c.ResultNames), len(c.ExtraNames)
	return nil
}

// splitSig splits "(params) (results)" / "(params) T" / "(params)".
func splitSig(s string) (string, string) {
	s = strings.TrimSpace(s)
	if !strings.HasPrefix(s, "(") {
		return "", s
	}
	depth := 0
	for i, c := range s {
		if c == '(' {
			depth++
		} else if c == ')' {
			depth--
			if depth == 0 {
				rest := strings.TrimSpace(s[i+1:])
				if rest != "" && !strings.HasPrefix(rest, "(") {
					rest = "(ret " + rest + ")"
				}
				return s[:i+1], rest
			}
		}
	}
	return s, ""
}

var identSan = regexp.MustCompile(`[^A-Za-z0-9_]`)

func stubIdent(kind, key string) string {
	return "verif" + kind + "_" + identSan.ReplaceAllString(key, "_")
}

// rewriteImplies turns "A ==> B" (lowest precedence, right associative, inside any
// bracket group or argument) into "(!(A) || (B))".
func rewriteImplies(s string) string {
	if !strings.Contains(s, "==>") {
		return s
	}
	// process innermost bracket groups first
	var out strings.Builder
	i := 0
	for i < len(s) {
		c := s[i]
		if c == '(' || c == '[' || c == '{' {
			j := matchBracket(s, i)
			if j < 0 {
				out.WriteString(s[i:])
				break
			}
			inner := s[i+1 : j]
			out.WriteByte(c)
			out.WriteString(rewriteArgs(inner))
			out.WriteByte(s[j])
			i = j + 1
			continue
		}
		if c == '"' || c == '`' || c == '\'' {
			j := i + 1
			for j < len(s) && s[j] != c {
				if s[j] == '\\' && c != '`' {
					j++
				}
				j++
			}
			if j >= len(s) {
				j = len(s) - 1
			}
			out.WriteString(s[i : j+1])
			i = j + 1
			continue
		}
		out.WriteByte(c)
		i++
	}
	return topImplies(out.String())
}

// rewriteArgs handles a bracket group's content: split on top-level commas/semicolons
func rewriteArgs(s string) string {
	var parts []string
	var seps []byte
	depth := 0
	start := 0
	for i := 0; i < len(s); i++ {
		switch s[i] {
		case '(', '[', '{':
			depth++
		case ')', ']', '}':
			depth--
		case '"', '`', '\'':
			q := s[i]
			i++
			for i < len(s) && s[i] != q {
				if s[i] == '\\' && q != '`' {
					i++
				}
				i++
			}
		case ',', ';', '\n':
			if depth == 0 {
				parts = append(parts, s[start:i])
				seps = append(seps, s[i])
				start = i + 1
			}
		}
	}
	parts = append(parts, s[start:])
	var out strings.Builder
	for k, p := range parts {
		out.WriteString(rewriteImplies(p))
		if k < len(seps) {
			out.WriteByte(seps[k])
		}
	}
	return out.String()
}

func matchBracket(s string, i int) int {
	depth := 0
	for j := i; j < len(s); j++ {
		switch s[j] {
		case '(', '[', '{':
			depth++
		case ')', ']', '}':
			depth--
			if depth == 0 {
				return j
			}
		case '"', '`', '\'':
			q := s[j]
			j++
			for j < len(s) && s[j] != q {
				if s[j] == '\\' && q != '`' {
					j++
				}
				j++
			}
		}
	}
	return -1
}

// topImplies rewrites depth-0 "==>" occurrences of s. A leading "return " is kept outside.
func topImplies(s string) string {
	depth := 0
	for i := 0; i+2 < len(s); i++ {
		switch s[i] {
		case '(', '[', '{':
			depth++
		case ')', ']', '}':
			depth--
		case '"', '`', '\'':
			q := s[i]
			i++
			for i < len(s) && s[i] != q {
				if s[i] == '\\' && q != '`' {
					i++
				}
				i++
			}
		case '=':
			if depth == 0 && strings.HasPrefix(s[i:], "==>") {
				lhs := s[:i]
				rhs := s[i+3:]
				pre := ""
				tl := strings.TrimLeft(lhs, " \t")
				if strings.HasPrefix(tl, "return ") {
					pre = "return "
					lhs = strings.TrimPrefix(tl, "return ")
				}
				return pre + "(!(" + strings.TrimSpace(lhs) + ") || (" + strings.TrimSpace(topImplies(rhs)) + "))"
			}
		}
	}
	return s
}

const intrinsicsSrc = `
func verifRequires(b bool)  {}
func verifEnsures(b bool)   {}
func verifInvariant(b bool) {}
func verifAssume(b bool)    {}
func verifAssert(b bool)    {}
func verifPost()            {}
func verifDecreases(x int)  {}
func verifOld[T any](x T) T { return x }
func verifForall(lo, hi int, f func(i int) bool) bool { return true }
func verifExists(lo, hi int, f func(i int) bool) bool { return true }
func verifAssigns(ps ...any) {}
func verifFresh(ps ...any) bool { return true }
func verifDisjoint(a, b any) bool { return true }
func verifSameSlice(a, b any) bool { return true }
func verifSeparate(a, b any) bool { return true }
func verifUnchanged(ps ...any) bool { return true }
func verifIte[T any](c bool, a, b T) T { if c { return a }; return b }
func verifAny[T any]() (x T) { return }
`

// genStubFile generates the overlay source for one package.
func genStubFile(ps *pkgSyntax, cs []*Contract) (string, error) {
	var body strings.Builder
	body.WriteString("// verif-intrinsics-begin" + intrinsicsSrc + "// verif-intrinsics-end\n")
	for _, c := range cs {
		switch c.Kind {
		case "spec":
			for _, l := range c.Body {
				body.WriteString(rewriteImplies(l) + "\n")
			}
			continue
		case "model":
			continue
		case "lemma":
			c.StubName = stubIdent("Lemma", strings.TrimPrefix(c.Target, "lemma:"))
			fmt.Fprintf(&body, "\n//line %s:%d\nfunc %s(%s) {\n", c.File, c.Line, c.StubName, c.ParamText)
			for _, cl := range c.Clauses {
				writeClause(&body, cl, filepath.Base(c.File))
			}
			for _, l := range c.Body {
				body.WriteString("\t" + rewriteImplies(l) + "\n")
			}
			body.WriteString("}\n")
			continue
		}
		kind := map[string]string{"func": "C", "closure": "C", "extern": "X", "loop": "L"}[c.Kind]
		c.StubName = stubIdent(kind, c.Key())
		var params []string
		for _, p := range []string{c.ParamText, c.ResultText, c.ExtraText} {
			if strings.TrimSpace(p) != "" {
				params = append(params, p)
			}
		}
		fmt.Fprintf(&body, "\nfunc %s(%s) {\n", c.StubName, strings.Join(params, ", "))
		for _, n := range append(append(append([]string{}, c.ParamNames...), c.ResultNames...), c.ExtraNames...) {
			fmt.Fprintf(&body, "\t_ = %s\n", n)
		}
		post := false
		if c.Kind == "loop" {
			body.WriteString("\tverifPost()\n")
			post = true
		}
		for _, cl := range c.Clauses {
			if cl.Kind == "ensures" && !post {
				body.WriteString("\tverifPost()\n")
				post = true
			}
			writeClause(&body, cl, filepath.Base(c.File))
		}
		if !post {
			body.WriteString("\tverifPost()\n")
		}
		body.WriteString("}\n")
	}
	text := body.String()
	// imports actually referenced
	var imps []string
	var codeOnly strings.Builder
	for _, ln := range strings.Split(text, "\n") {
		if i := strings.Index(ln, "//"); i >= 0 && !strings.Contains(ln[:i], "\"") {
			ln = ln[:i]
		}
		codeOnly.WriteString(ln + "\n")
	}
	for name, path := range extraImports[ps.dir] {
		if _, ok := ps.imports[name]; !ok {
			ps.imports[name] = path
		}
	}
	for name, path := range ps.imports {
		if regexp.MustCompile(`\b` + regexp.QuoteMeta(name) + `\.`).MatchString(codeOnly.String()) {
			imps = append(imps, fmt.Sprintf("\t%s %q\n", name, path))
		}
	}
	sort.Strings(imps)
	var out strings.Builder
	fmt.Fprintf(&out, "// Code generated by gpverify from contracts_verif.go. DO NOT EDIT.\n\npackage %s\n\n", ps.name)
	if len(imps) > 0 {
		out.WriteString("import (\n" + strings.Join(imps, "") + ")\n")
	}
	out.WriteString(text)
	return out.String(), nil
}

func writeClause(b *strings.Builder, cl Clause, file string) {
	t := rewriteImplies(cl.Text)
	fmt.Fprintf(b, "//line %s:%d\n", file, cl.Line)
	switch cl.Kind {
	case "requires":
		fmt.Fprintf(b, "\tverifRequires(%s)\n", t)
	case "ensures":
		fmt.Fprintf(b, "\tverifEnsures(%s)\n", t)
	case "invariant":
		fmt.Fprintf(b, "\tverifInvariant(%s)\n", t)
	case "assigns":
		fmt.Fprintf(b, "\tverifAssigns(%s)\n", t)
	case "decreases":
		fmt.Fprintf(b, "\tverifDecreases(%s)\n", t)
	case "let":
		name := strings.TrimSpace(strings.SplitN(t, ":=", 2)[0])
		fmt.Fprintf(b, "\t%s\n", t)
		for _, n := range strings.Split(name, ",") {
			fmt.Fprintf(b, "\t_ = %s\n", strings.TrimSpace(n))
		}
	case "go":
		fmt.Fprintf(b, "\t%s\n", t)
	}
}
