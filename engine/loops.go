package main

import (
	"fmt"
	"go/token"
	"go/types"
	"strings"

	"golang.org/x/tools/go/ssa"
)

// bindLoopLocals resolves the "locals" of a loop invariant block to values at the header.
func (f *Frame) bindLoopLocals(con *Contract, li *loopInfo, phiVals map[*ssa.Phi][]*Term, mem MemState) ([][]*Term, error) {
	stub := f.u.W.stubs[con]
	np := con.NParams
	var out [][]*Term
	refs := f.u.W.debugRefsOf(f.fn)
	for k, name := range con.ExtraNames {
		pt := stub.Params[np+k].Type()
		var found []*Term
		// 1. a phi of the header named like the variable
		for _, in := range li.header.Instrs {
			phi, ok := in.(*ssa.Phi)
			if !ok {
				break
			}
			// go/ssa names the hidden counter of a range-over-int loop "rangeint.iter": written
			// rangeint_iter in a contract
			if strings.ReplaceAll(phi.Comment, ".", "_") == name && types.Identical(phi.Type(), pt) {
				if pv, ok := phiVals[phi]; ok {
					found = pv
				} else {
					found = f.val(phi)
				}
			}
		}
		// 2. a value defined outside the loop (dominating the header)
		if found == nil {
			for _, d := range refs[name] {
				if d.IsAddr {
					continue
				}
				// the variable must be in scope at the loop (another variable of the same name in a
				// sibling scope is not meant) and the reference must be executed before the loop
				if lp := loopPos(li); lp.IsValid() {
					if o := d.Object(); o != nil && o.Parent() != nil && !o.Parent().Contains(lp) {
						continue
					}
				}
				if !d.Block().Dominates(li.header) {
					continue
				}
				v := d.X
				vi, isInstr := v.(ssa.Instruction)
				if isInstr {
					if !vi.Block().Dominates(li.header) || li.body[vi.Block()] && vi.Block() != li.header {
						continue
					}
					if _, isPhi := v.(*ssa.Phi); isPhi && vi.Block() == li.header {
						continue
					}
				}
				if !types.Identical(v.Type(), pt) {
					continue
				}
				if tv, ok := f.vals[v]; ok {
					found = tv
				} else if _, ok := v.(*ssa.Const); ok {
					found = f.val(v)
				} else if _, ok := v.(*ssa.Parameter); ok {
					found = f.val(v)
				}
			}
		}
		// 3. an addressable local: load it
		if found == nil {
			for _, d := range refs[name] {
				if !d.IsAddr {
					continue
				}
				if lp := loopPos(li); lp.IsValid() {
					if o := d.Object(); o != nil && o.Parent() != nil && !o.Parent().Contains(lp) {
						continue
					}
				}
				if pv, ok := d.X.Type().Underlying().(*types.Pointer); ok && types.Identical(pv.Elem(), pt) {
					if av, ok := f.vals[d.X]; ok {
						found = f.loadFrom(mem, pt, av[0], av[1])
						break
					}
				}
			}
		}
		if found == nil {
			return nil, fmt.Errorf("loop %d of %s: local %q (type %s) does not resolve at the loop header", li.ord, funcKey(f.fn), name, pt)
		}
		out = append(out, found)
	}
	return out, nil
}

// loopPos: a source position inside the loop statement.
func loopPos(li *loopInfo) token.Pos {
	scan := func(b *ssa.BasicBlock) token.Pos {
		for _, in := range b.Instrs {
			switch in.(type) {
			case *ssa.Phi, *ssa.DebugRef:
				continue
			}
			if in.Pos().IsValid() {
				return in.Pos()
			}
		}
		return token.NoPos
	}
	if p := scan(li.header); p.IsValid() {
		return p
	}
	for _, b := range li.header.Parent().Blocks {
		if li.body[b] {
			if p := scan(b); p.IsValid() {
				return p
			}
		}
	}
	return token.NoPos
}

func (f *Frame) paramVals() [][]*Term {
	var out [][]*Term
	for _, p := range f.fn.Params {
		out = append(out, f.val(p))
	}
	return out
}

type loopRun struct {
	con       *Contract
	phis      []*ssa.Phi
	preMem    MemState
	headMem   MemState
	entryCtr  int64
	decAtHead []*Term
	regions   []region
	auto      []*autoCand
}

// enterLoop is called with f.cur = merged state of the forward edges into the
// header and the header's phis bound to their pre-loop values.
func (f *Frame) enterLoop(li *loopInfo, b *ssa.BasicBlock) {
	tb := f.tb()
	u := f.u
	con := u.W.loopContract(f.fn, li.ord)
	if f.loopRuns == nil {
		f.loopRuns = map[*ssa.BasicBlock]*loopRun{}
	}
	lr := &loopRun{con: con, preMem: f.cur.mem, entryCtr: u.objCtr}
	f.loopRuns[b] = lr
	for _, in := range b.Instrs {
		if phi, ok := in.(*ssa.Phi); ok {
			lr.phis = append(lr.phis, phi)
		} else {
			break
		}
	}
	anchor := f.anchorFor(fmt.Sprintf("loop%d", li.ord))
	// 1. invariant holds on entry
	var st *stubEval
	if con != nil {
		locals, err := f.bindLoopLocals(con, li, nil, f.cur.mem)
		if err != nil {
			u.addObl("inv-entry", anchor, f.cur.reach, tb.False(), f.pos(b.Instrs[0].Pos()), err.Error())
		} else {
			vals := append(f.paramVals(), locals...)
			mem := f.cur.mem
			st = f.evalStubLoop(con, vals, mem)
			if !f.spec {
				for i, inv := range st.invariants {
					u.addObl("inv-entry", anchor, f.cur.reach, inv, f.pos(st.invPos[i]), fmt.Sprintf("invariant %d of loop %d does not hold on entry", i+1, li.ord))
				}
			}
			lr.regions = st.regions
		}
	}
	// 2. havoc: phis and the memory the loop may write
	preState := f.cur
	prePhi := map[*ssa.Phi]*Term{}
	for _, phi := range lr.phis {
		if pv := f.val(phi); len(pv) == 1 {
			prePhi[phi] = pv[0]
		}
	}
	// Objects allocated by earlier iterations are anonymous: they get ids from a reserved band
	// below everything the body allocates from here on, so a loop-carried reference can never
	// be confused with an object of the current iteration.
	u.objCtr += 1 << 12
	carried := tb.BVU(32, uint64(freshBase+u.objCtr+1))
	for _, phi := range lr.phis {
		nv := u.freshValue("phi!"+phi.Comment, phi.Type())
		for _, fact := range u.validFacts(phi.Type(), nv, carried) {
			u.addFact(fact)
		}
		u.strFacts(nv)
		f.set(phi, nv)
	}
	if con != nil && len(lr.regions) > 0 {
		// written assigns clause: these regions, plus the function's own local variables that the
		// loop body assigns (syntactic), are what the loop may change; every write in the body is
		// checked against it (obligations frame@loopN:...)
		f.loopLocalWrites = nil
		f.loopWrites(li)
		regs := append([]region{}, lr.regions...)
		for _, lrg := range f.loopLocalWrites {
			av, ok := f.vals[lrg.alloc]
			if !ok {
				continue
			}
			et := lrg.alloc.Type().Underlying().(*types.Pointer).Elem()
			lo := tb.Add(av[1], tb.BV(64, lrg.off))
			regs = append(regs, region{obj: av[0], lo: lo, hi: tb.Add(lo, tb.BV(64, lrg.size)), sorts: u.W.layout.ElemSorts(et), cond: tb.True()})
		}
		f.cur.mem = f.havocRegions(f.cur.mem, regs, false)
		if !f.spec {
			lf := &loopFrame{owner: f, li: li, ord: li.ord, limit: tb.BVU(32, uint64(freshBase+lr.entryCtr+1)), regions: regs}
			var keep []*loopFrame
			for _, o := range f.loopFrames {
				if !(o.owner == f && o.li == li) {
					keep = append(keep, o)
				}
			}
			f.loopFrames = append(keep, lf)
		}
	} else if con != nil && con.Flags["nowrite"] {
		// nothing
	} else {
		f.loopLocalWrites = nil
		sorts, all, maps := f.loopWrites(li)
		if maps && !all {
			// entries are added to / removed from maps: forget the content and the length of every
			// map object that exists at this point, nothing else
			limit := tb.BVU(32, uint64(freshBase+u.objCtr+1))
			f.cur.mem = f.cur.mem.clone()
			f.havocMaps(&f.cur.mem, limit)
			f.cur.mem.m[mapLenKey] = u.mc.HavocObjs(f.cur.mem.m[mapLenKey], limit, u.mc.NewBase("lpml", BV64, f.havocBound()))
		}
		if all {
			// private locals keep their content across a havoc of everything (nobody else can
			// reach them) - except those the loop body itself may write
			for _, a := range writtenLocals(f.fn, li) {
				av, ok := f.vals[a]
				if !ok {
					continue
				}
				et := a.Type().Underlying().(*types.Pointer).Elem()
				regs := []region{{obj: av[0], lo: av[1], hi: tb.Add(av[1], tb.BV(64, u.W.layout.Size(et))), sorts: u.W.layout.ElemSorts(et), cond: tb.True()}}
				f.cur.mem = f.havocRegions(f.cur.mem, regs, false)
			}
		}
		if !all {
			// function-level locals assigned in the loop
			for _, lrg := range f.loopLocalWrites {
				av, ok := f.vals[lrg.alloc]
				if !ok {
					continue
				}
				et := lrg.alloc.Type().Underlying().(*types.Pointer).Elem()
				lo := tb.Add(av[1], tb.BV(64, lrg.off))
				regs := []region{{obj: av[0], lo: lo, hi: tb.Add(lo, tb.BV(64, lrg.size)), sorts: u.W.layout.ElemSorts(et), cond: tb.True()}}
				f.cur.mem = f.havocRegions(f.cur.mem, regs, false)
			}
		}
		if all {
			f.cur.mem = f.havocRegions(f.cur.mem, nil, true)
		} else if len(sorts) > 0 {
			limit := tb.BVU(32, uint64(freshBase+u.objCtr+1))
			f.cur.mem = f.cur.mem.clone()
			for _, s := range sorts {
				k := s.Key()
				f.cur.mem.m[k] = u.mc.HavocObjs(f.cur.mem.m[k], limit, u.mc.NewBase("lp", s, f.havocBound()))
			}
		}
	}
	lr.headMem = f.cur.mem
	// 3. assume the invariant for the havocked state
	if con != nil && st != nil {
		phiVals := map[*ssa.Phi][]*Term{}
		locals, err := f.bindLoopLocals(con, li, phiVals, f.cur.mem)
		if err == nil {
			vals := append(f.paramVals(), locals...)
			st2 := f.evalStubLoop(con, vals, f.cur.mem)
			for _, inv := range st2.invariants {
				u.addFact(tb.Implies(f.cur.reach, inv))
			}
			lr.decAtHead = st2.decreases
		}
	}
	// 4. automatic index invariants (not while probing an enclosing loop's candidates twice over)
	if !f.spec {
		kept := f.inferLoopInvariants(li, b, lr.phis, prePhi, preState)
		lr.auto = kept
		for _, c := range kept {
			if p := c.pred(f, prePhi[c.phi]); p != nil {
				u.addObl("inv-entry", anchor+"/auto:"+c.desc, preState.reach, p, f.pos(b.Instrs[0].Pos()), "inferred loop invariant "+c.desc+" does not hold on entry")
			}
			if p := c.pred(f, f.val(c.phi)[0]); p != nil {
				u.addFact(tb.Implies(f.cur.reach, p))
			}
		}
	}
}

func (f *Frame) evalStubLoop(con *Contract, vals [][]*Term, mem MemState) *stubEval {
	m := mem
	old := f.u.M0
	if f.entryMem != nil {
		old = *f.entryMem
	}
	return f.evalStub(con, vals, old, &m, f.tb().BVU(32, freshBase), nil)
}

// backEdge: the invariant must hold again with the values flowing along from->header.
func (f *Frame) backEdge(li *loopInfo, from, header *ssa.BasicBlock, st BState) {
	tb := f.tb()
	u := f.u
	lr := f.loopRuns[header]
	if lr == nil || f.spec {
		return
	}
	anchor := f.anchorFor(fmt.Sprintf("loop%d", li.ord))
	idx := predIndex(header, from)
	if f.probe != nil && f.probe.header == header {
		bk := probeBack{from: from, st: st, vals: map[*ssa.Phi]*Term{}}
		for _, phi := range lr.phis {
			if v := f.val(phi.Edges[idx]); len(v) == 1 {
				bk.vals[phi] = v[0]
			}
		}
		f.probe.backs = append(f.probe.backs, bk)
		return
	}
	for _, c := range lr.auto {
		if v := f.val(c.phi.Edges[idx]); len(v) == 1 {
			save := f.cur
			f.cur = st
			if p := c.pred(f, v[0]); p != nil {
				u.addObl("inv-step", anchor+"/auto:"+c.desc, st.reach, p, f.pos(header.Instrs[0].Pos()), "inferred loop invariant "+c.desc+" is not preserved")
			}
			f.cur = save
		}
	}
	if lr.con == nil {
		return
	}
	phiVals := map[*ssa.Phi][]*Term{}
	for _, phi := range lr.phis {
		phiVals[phi] = f.val(phi.Edges[idx])
	}
	locals, err := f.bindLoopLocals(lr.con, li, phiVals, st.mem)
	if err != nil {
		u.addObl("inv-step", anchor, st.reach, tb.False(), f.pos(header.Instrs[0].Pos()), err.Error())
		return
	}
	vals := append(f.paramVals(), locals...)
	save := f.cur
	f.cur = st
	se := f.evalStubLoop(lr.con, vals, st.mem)
	for i, inv := range se.invariants {
		u.addObl("inv-step", anchor, st.reach, inv, f.pos(se.invPos[i]), fmt.Sprintf("invariant %d of loop %d is not preserved", i+1, li.ord))
	}
	for i, d := range se.decreases {
		if i < len(lr.decAtHead) {
			h := lr.decAtHead[i]
			u.addObl("dec", anchor, st.reach, tb.And(tb.Sle(tb.BV(64, 0), h), tb.Slt(d, h)), f.pos(header.Instrs[0].Pos()), "loop variant does not decrease")
		}
	}
	f.cur = save
}

type localRegion struct {
	alloc     *ssa.Alloc
	off, size int64
}

// staticRegion: the slot range of a local variable that an address expression denotes, if
// that is decidable syntactically (chains of field / constant-index selections on an Alloc).
func staticRegion(L *Layout, v ssa.Value) (root *ssa.Alloc, off, size int64, ok bool) {
	var chain []ssa.Value
	for i := 0; i < 16; i++ {
		switch x := v.(type) {
		case *ssa.Alloc:
			root = x
			size = L.Size(x.Type().Underlying().(*types.Pointer).Elem())
			// apply the chain from the root outwards
			for k := len(chain) - 1; k >= 0; k-- {
				switch c := chain[k].(type) {
				case *ssa.FieldAddr:
					st := c.X.Type().Underlying().(*types.Pointer).Elem().Underlying().(*types.Struct)
					off += L.FieldOffset(st, c.Field)
					size = L.Size(st.Field(c.Field).Type())
				case *ssa.IndexAddr:
					at := c.X.Type().Underlying().(*types.Pointer).Elem().Underlying().(*types.Array)
					if cst, isC := c.Index.(*ssa.Const); isC && cst.Value != nil {
						off += cst.Int64() * L.Size(at.Elem())
						size = L.Size(at.Elem())
					}
					// variable index: the whole array (size unchanged)
				}
			}
			return root, off, size, true
		case *ssa.FieldAddr:
			chain = append(chain, x)
			v = x.X
		case *ssa.IndexAddr:
			if _, isPtr := x.X.Type().Underlying().(*types.Pointer); !isPtr {
				return nil, 0, 0, false
			}
			chain = append(chain, x)
			v = x.X
		default:
			return nil, 0, 0, false
		}
	}
	return nil, 0, 0, false
}

// paramRootedWrites reports the parameters through which fn (transitively) writes memory,
// provided every store of fn goes through a parameter or a local variable of its own.
func paramRootedWrites(w *World, fn *ssa.Function, depth int) ([]int, bool) {
	if len(fn.Blocks) == 0 || depth > 3 {
		return nil, false
	}
	written := map[int]bool{}
	paramOf := func(v ssa.Value) (int, bool, bool) { // index, isParam, isLocal
		for i := 0; i < 16; i++ {
			switch x := v.(type) {
			case *ssa.Parameter:
				for k, p := range fn.Params {
					if p == x {
						return k, true, false
					}
				}
				return 0, false, false
			case *ssa.Alloc:
				return 0, false, true
			case *ssa.FieldAddr:
				v = x.X
			case *ssa.IndexAddr:
				if _, isPtr := x.X.Type().Underlying().(*types.Pointer); !isPtr {
					return 0, false, false
				}
				v = x.X
			default:
				return 0, false, false
			}
		}
		return 0, false, false
	}
	for _, b := range fn.Blocks {
		for _, in := range b.Instrs {
			switch x := in.(type) {
			case *ssa.Store:
				k, isP, isL := paramOf(x.Addr)
				if isP {
					written[k] = true
				} else if !isL {
					return nil, false
				}
			case *ssa.Select:
				if !recvOnlySelect(x) {
					return nil, false
				}
			case *ssa.MapUpdate, *ssa.Go, *ssa.Send, *ssa.Defer:
				return nil, false
			case ssa.CallInstruction:
				c := x.Common()
				if c.IsInvoke() {
					return nil, false
				}
				switch cal := c.Value.(type) {
				case *ssa.Builtin:
					switch cal.Name() {
					case "len", "cap", "min", "max", "print", "println", "ssa:wrapnilchk":
					default:
						return nil, false
					}
				case *ssa.Function:
					pp := fnPkgPath(cal)
					if pureExterns[pp+"."+funcKey(cal)] || isPureByPackage(pp) {
						continue
					}
					if w.contractFor(cal) != nil {
						return nil, false
					}
					ps, ok := paramRootedWrites(w, cal, depth+1)
					if !ok {
						return nil, false
					}
					for _, j := range ps {
						k, isP, isL := paramOf(c.Args[j])
						if isP {
							written[k] = true
						} else if !isL {
							return nil, false
						}
					}
				default:
					return nil, false
				}
			}
		}
	}
	var out []int
	for k := range written {
		out = append(out, k)
	}
	return out, true
}

// derivedAddrs: the SSA values that are addresses into the local variable a (a itself, field and
// element addresses, phis of those), and whether one of them is used in a way that lets the
// address escape (stored, passed to a call, converted, sliced, compared ...).
func derivedAddrs(a *ssa.Alloc) (set map[ssa.Value]bool, escapes bool) {
	set = map[ssa.Value]bool{a: true}
	work := []ssa.Value{a}
	for len(work) > 0 {
		v := work[len(work)-1]
		work = work[:len(work)-1]
		refs := v.Referrers()
		if refs == nil {
			continue
		}
		for _, r := range *refs {
			switch x := r.(type) {
			case *ssa.DebugRef:
			case *ssa.FieldAddr:
				if x.X == v && !set[x] {
					set[x] = true
					work = append(work, x)
				}
			case *ssa.IndexAddr:
				if x.X == v {
					if !set[x] {
						set[x] = true
						work = append(work, x)
					}
				} else {
					escapes = true
				}
			case *ssa.Phi:
				if !set[x] {
					set[x] = true
					work = append(work, x)
				}
			case *ssa.UnOp:
				if x.Op != token.MUL {
					escapes = true
				}
			case *ssa.Store:
				if x.Val == v {
					escapes = true
				}
			case *ssa.BinOp:
				// comparison of addresses (p == nil): harmless
				if x.Op != token.EQL && x.Op != token.NEQ {
					escapes = true
				}
			case *ssa.If:
			case *ssa.MakeClosure:
				// captured by a function literal that is only ever deferred by this function: the
				// variable is still reachable by nobody else, provided the literal keeps to the same
				// discipline with its free variable (it runs at function exit, after every loop)
				fnc, isFn := x.Fn.(*ssa.Function)
				if !isFn || !onlyDeferred(x) {
					escapes = true
					break
				}
				for i, bnd := range x.Bindings {
					if bnd == v && i < len(fnc.FreeVars) {
						fv := fnc.FreeVars[i]
						if !set[fv] {
							set[fv] = true
							work = append(work, fv)
						}
					}
				}
			default:
				escapes = true
			}
		}
	}
	return
}

// privateAlloc: no address into the local variable ever leaves the function's own loads and
// stores, so no callee and no other object can reach it.
func (w *World) privateAlloc(a *ssa.Alloc) bool {
	if !a.Heap {
		return true
	}
	if v, ok := w.privAlloc[a]; ok {
		return v
	}
	_, esc := derivedAddrs(a)
	if w.privAlloc == nil {
		w.privAlloc = map[*ssa.Alloc]bool{}
	}
	w.privAlloc[a] = !esc
	return !esc
}

// writtenLocals: function-level local variables (allocated outside the loop) that the loop
// body may write through an address derived from them.
func writtenLocals(fn *ssa.Function, li *loopInfo) []*ssa.Alloc {
	var out []*ssa.Alloc
	for _, b := range fn.Blocks {
		for _, in := range b.Instrs {
			a, ok := in.(*ssa.Alloc)
			if !ok || li.body[a.Block()] {
				continue
			}
			set, _ := derivedAddrs(a)
			written := false
			for v := range set {
				refs := v.Referrers()
				if refs == nil {
					continue
				}
				for _, r := range *refs {
					if st, ok := r.(*ssa.Store); ok && st.Addr == v && li.body[st.Block()] {
						written = true
					}
				}
			}
			if written {
				out = append(out, a)
			}
		}
	}
	return out
}

// rootAlloc: the local variable an address expression points into, if it is one syntactically
func rootAlloc(v ssa.Value) *ssa.Alloc {
	for i := 0; i < 16; i++ {
		switch x := v.(type) {
		case *ssa.Alloc:
			return x
		case *ssa.FieldAddr:
			v = x.X
		case *ssa.IndexAddr:
			if _, isPtr := x.X.Type().Underlying().(*types.Pointer); !isPtr {
				return nil // element of a slice: the backing array is somewhere else
			}
			v = x.X
		default:
			return nil
		}
	}
	return nil
}

// loopWrites: the slot sorts that instructions of the loop body may write (syntactic).
func (f *Frame) loopWrites(li *loopInfo) (sorts []Sort, all bool, maps bool) {
	L := f.u.W.layout
	seen := map[Sort]bool{}
	add := func(ss []Sort) {
		for _, s := range ss {
			if !seen[s] {
				seen[s] = true
				sorts = append(sorts, s)
			}
		}
	}
	visited := map[*ssa.Function]bool{}
	var scanFn func(fn *ssa.Function, blocks map[*ssa.BasicBlock]bool, depth int)
	scanFn = func(fn *ssa.Function, blocks map[*ssa.BasicBlock]bool, depth int) {
		for _, b := range fn.Blocks {
			if blocks != nil && !blocks[b] {
				continue
			}
			for _, in := range b.Instrs {
				switch x := in.(type) {
				case *ssa.Store:
					// a store into a local variable only changes that variable: per-iteration locals
					// are fresh objects, function-level locals are havocked individually (field-precise)
					if root, off, _, ok := staticRegion(L, x.Addr); ok && fn == f.fn {
						if !li.body[root.Block()] {
							f.loopLocalWrites = append(f.loopLocalWrites, localRegion{root, off, L.Size(x.Val.Type())})
						}
						continue
					} else if ok && depth > 0 {
						continue // local of an inlined callee: fresh per call
					}
					add(L.ElemSorts(x.Val.Type()))
				case *ssa.MapUpdate:
					maps = true // map contents live in their own state: memory cells are untouched
				case *ssa.Select:
					if !recvOnlySelect(x) {
						all = true
					}
				case *ssa.Go, *ssa.Send:
					all = true
				case ssa.CallInstruction:
					c := x.Common()
					if c.IsInvoke() {
						// an interface method with an assumed contract that assigns nothing writes nothing;
						// error.Error() is pure
						q := "(" + types.TypeString(c.Value.Type(), nil) + ")." + c.Method.Name()
						quiet := c.Method.Name() == "Error" && len(c.Args) == 0
						for _, con := range f.u.W.all {
							if con.Kind == "extern" && con.Target == q {
								quiet = true
								for _, cl := range con.Clauses {
									if cl.Kind == "assigns" {
										quiet = false
									}
								}
							}
						}
						if !quiet {
							all = true
						}
						continue
					}
					switch cal := c.Value.(type) {
					case *ssa.Builtin:
						switch cal.Name() {
						case "copy", "append":
							add(L.ElemSorts(c.Args[0].Type().Underlying().(*types.Slice).Elem()))
						case "delete":
							maps = true
						case "clear":
							all = true
						}
					case *ssa.Function:
						name := cal.Name()
						if o := cal.Origin(); o != nil {
							name = o.Name()
						}
						if len(name) > 5 && name[:5] == "verif" {
							continue
						}
						if con := f.u.W.contractFor(cal); con != nil {
							// conservatively: every sort reachable from assigns is unknown here -> all,
							// unless the contract assigns nothing
							hasAssigns := con.Flags["assigns_all"]
							for _, cl := range con.Clauses {
								if cl.Kind == "assigns" {
									hasAssigns = true
								}
							}
							if ps, ok := assignsOnlyParams(con, cal); ok && !con.Flags["noframe"] && !con.Flags["assigns_all"] && fn == f.fn {
								// the contract's frame is "the objects these pointer parameters point to"
								for _, k := range ps {
									arg := c.Args[k]
									pt, isPtr := arg.Type().Underlying().(*types.Pointer)
									if !isPtr {
										all = true
										continue
									}
									if root, off, _, ok := staticRegion(L, arg); ok {
										if !li.body[root.Block()] {
											f.loopLocalWrites = append(f.loopLocalWrites, localRegion{root, off, L.Size(pt.Elem())})
										}
										continue
									}
									add(L.ElemSorts(pt.Elem()))
								}
								continue
							}
							if hasAssigns || con.Flags["noframe"] {
								all = true // (a noframe contract without an assigns clause may write anything)
							}
							continue
						}
						pp := fnPkgPath(cal)
						if pureExterns[pp+"."+funcKey(cal)] || isPureByPackage(pp) {
							continue
						}
						if ps, ok := paramRootedWrites(f.u.W, cal, 0); ok && fn == f.fn {
							// the callee writes only through some of its pointer parameters
							for _, k := range ps {
								arg := c.Args[k]
								pt, isPtr := arg.Type().Underlying().(*types.Pointer)
								if !isPtr {
									all = true
									continue
								}
								if root, off, _, ok := staticRegion(L, arg); ok {
									if !li.body[root.Block()] {
										f.loopLocalWrites = append(f.loopLocalWrites, localRegion{root, off, L.Size(pt.Elem())})
									}
									continue
								}
								add(L.ElemSorts(pt.Elem()))
							}
							continue
						}
						if len(cal.Blocks) > 0 && depth < 6 && !visited[cal] {
							visited[cal] = true
							scanFn(cal, nil, depth+1)
						} else if len(cal.Blocks) == 0 {
							all = true
						}
					case *ssa.MakeClosure:
						if fn2, ok := cal.Fn.(*ssa.Function); ok && !visited[fn2] && depth < 6 {
							visited[fn2] = true
							scanFn(fn2, nil, depth+1)
						}
					default:
						all = true
					}
				}
			}
		}
	}
	scanFn(f.fn, li.body, 0)
	return
}

// assignsOnlyParams: every assigns clause of the contract is a list of plain parameter names
// (the objects those pointers designate). Returns the parameter indices.
func assignsOnlyParams(con *Contract, fn *ssa.Function) ([]int, bool) {
	var out []int
	n := 0
	for _, cl := range con.Clauses {
		if cl.Kind != "assigns" {
			continue
		}
		for _, item := range strings.Split(cl.Text, ",") {
			item = strings.TrimSpace(item)
			if item == "" {
				continue
			}
			found := -1
			for k, p := range fn.Params {
				if p.Name() == item {
					found = k
				}
			}
			if found < 0 {
				return nil, false
			}
			out = append(out, found)
			n++
		}
	}
	return out, n > 0
}

// onlyDeferred: every use of the closure value is being the callee of a defer statement.
func onlyDeferred(c *ssa.MakeClosure) bool {
	refs := c.Referrers()
	if refs == nil {
		return false
	}
	n := 0
	for _, r := range *refs {
		switch x := r.(type) {
		case *ssa.DebugRef:
		case *ssa.Defer:
			if x.Call.Value != c {
				return false
			}
			for _, a := range x.Call.Args {
				if a == c {
					return false
				}
			}
			n++
		default:
			return false
		}
	}
	return n > 0
}
