package main

// Maps are abstract objects. For a map object o of type map[K]V the state is
//
//	has(o, key slots...) : Bool      v_i(o, key slots...) : slot i of V     len : BV64 memory at (o, 0)
//
// kept, like memory, as Go-side layers over uninterpreted base functions. Iteration
// (range) is abstract: every step yields an arbitrary entry of the map (see rangeNext).

import (
	"fmt"
	"go/types"

	"golang.org/x/tools/go/ssa"
)

type mapKind int

const (
	mpBase mapKind = iota
	mpStore
	mpIte
	mpClearObj  // object obj reads as val (fresh map / cleared)
	mpHavocObjs // objects below limit read from fresh
	mpObjRange  // objects in [obj, limit] read from fresh (state transferred from another execution)
)

type MapNode struct {
	kind  mapKind
	id    int
	sort  Sort
	name  string
	prev  *MapNode
	obj   *Term
	key   []*Term
	val   *Term
	c     *Term
	a, b  *MapNode
	limit *Term
	fresh *MapNode
}

func (mc *MemCtx) mnode(n *MapNode) *MapNode {
	mc.nid++
	n.id = mc.nid
	return n
}

func (mc *MemCtx) MSel(m *MapNode, obj *Term, key []*Term) *Term {
	tb := mc.tb
	switch m.kind {
	case mpBase:
		args := append([]*Term{obj}, key...)
		return tb.UF(m.name, m.sort, args...)
	case mpStore:
		cs := []*Term{tb.Eq(obj, m.obj)}
		for i := range key {
			cs = append(cs, tb.Eq(key[i], m.key[i]))
		}
		c := tb.And(cs...)
		if c.IsTrue() {
			return m.val
		}
		if c.IsFalse() {
			return mc.MSel(m.prev, obj, key)
		}
		return tb.Ite(c, m.val, mc.MSel(m.prev, obj, key))
	case mpIte:
		return tb.Ite(m.c, mc.MSel(m.a, obj, key), mc.MSel(m.b, obj, key))
	case mpClearObj:
		c := tb.Eq(obj, m.obj)
		if c.IsTrue() {
			return m.val
		}
		if c.IsFalse() {
			return mc.MSel(m.prev, obj, key)
		}
		return tb.Ite(c, m.val, mc.MSel(m.prev, obj, key))
	case mpObjRange:
		c := tb.And(tb.Ule(m.obj, obj), tb.Ule(obj, m.limit))
		if c.IsTrue() {
			return mc.MSel(m.fresh, obj, key)
		}
		if c.IsFalse() {
			return mc.MSel(m.prev, obj, key)
		}
		return tb.Ite(c, mc.MSel(m.fresh, obj, key), mc.MSel(m.prev, obj, key))
	case mpHavocObjs:
		c := tb.Ult(obj, m.limit)
		if c.IsTrue() {
			return mc.MSel(m.fresh, obj, key)
		}
		if c.IsFalse() {
			return mc.MSel(m.prev, obj, key)
		}
		return tb.Ite(c, mc.MSel(m.fresh, obj, key), mc.MSel(m.prev, obj, key))
	}
	panic("MSel")
}

// map state keys: "<type>#has", "<type>#v<i>"
func (u *Unit) mapTypeKey(t types.Type) string { return types.TypeString(t.Underlying(), nil) }

func (f *Frame) mapNode(mem MemState, key string, s Sort) *MapNode {
	if n, ok := mem.mp[key]; ok {
		return n
	}
	panic(unsupported("map type not found by the pre-scan of the unit: " + key))
}

func (f *Frame) setMapNode(key string, n *MapNode) {
	f.cur.mem = f.cur.mem.clone()
	f.cur.mem.mp[key] = n
}

func (f *Frame) mapParts(t types.Type) (mt *types.Map, tk string, vsorts []Sort) {
	mt = t.Underlying().(*types.Map)
	tk = f.u.mapTypeKey(t)
	vsorts = f.u.W.layout.Slots(mt.Elem())
	return
}

func (f *Frame) keySlots(mt *types.Map, v []*Term, vt types.Type) []*Term {
	// a key of interface type holds a boxed value; only identical key types are supported
	if _, isIface := mt.Key().Underlying().(*types.Interface); isIface {
		panic(unsupported("maps with interface keys"))
	}
	return v
}

func (f *Frame) makeMap(x *ssa.MakeMap) {
	tb := f.tb()
	_, tk, vs := f.mapParts(x.Type())
	obj := f.allocObj()
	f.u.mapObjs = append(f.u.mapObjs, f.u.objCtr)
	f.setMapNode(tk+"#has", f.u.mc.mnode(&MapNode{kind: mpClearObj, sort: BoolSort, prev: f.mapNode(f.cur.mem, tk+"#has", BoolSort), obj: obj, val: tb.False()}))
	for i, s := range vs {
		k := fmt.Sprintf("%s#v%d", tk, i)
		f.setMapNode(k, f.u.mc.mnode(&MapNode{kind: mpClearObj, sort: s, prev: f.mapNode(f.cur.mem, k, s), obj: obj, val: f.u.zeroOf(s)}))
	}
	f.setMapLen(obj, tb.BV(64, 0))
	f.set(x, []*Term{obj})
}

func (f *Frame) mapHas(mem MemState, t types.Type, obj *Term, key []*Term) *Term {
	tb := f.tb()
	_, tk, _ := f.mapParts(t)
	h := f.u.mc.MSel(f.mapNode(mem, tk+"#has", BoolSort), obj, key)
	return tb.And(tb.Not(tb.Eq(obj, tb.BV(32, 0))), h)
}

func (f *Frame) mapLenTerm(mem MemState, obj *Term) *Term {
	tb := f.tb()
	l := f.u.mc.Sel(mem.m[mapLenKey], obj, tb.BV(64, 0))
	return tb.Ite(tb.Eq(obj, tb.BV(32, 0)), tb.BV(64, 0), l)
}

func (f *Frame) mapUpdate(x *ssa.MapUpdate) {
	tb := f.tb()
	mt, tk, vs := f.mapParts(x.Map.Type())
	obj := f.val(x.Map)[0]
	key := f.keySlots(mt, f.val(x.Key), x.Key.Type())
	val := f.val(x.Value)
	f.oblig("nopanic:nil", "mapupdate", tb.Not(tb.Eq(obj, tb.BV(32, 0))), x.Pos(), "assignment to entry in nil map")
	if f.writeChecksActive() {
		f.checkWrite(obj, tb.BV(64, 0), tb.BV(64, 1), "mapupdate", x.Pos())
	}
	had := f.u.mc.MSel(f.mapNode(f.cur.mem, tk+"#has", BoolSort), obj, key)
	oldLen := f.u.mc.Sel(f.cur.mem.m[mapLenKey], obj, tb.BV(64, 0))
	f.setMapNode(tk+"#has", f.u.mc.mnode(&MapNode{kind: mpStore, sort: BoolSort, prev: f.mapNode(f.cur.mem, tk+"#has", BoolSort), obj: obj, key: key, val: tb.True()}))
	for i, s := range vs {
		k := fmt.Sprintf("%s#v%d", tk, i)
		f.setMapNode(k, f.u.mc.mnode(&MapNode{kind: mpStore, sort: s, prev: f.mapNode(f.cur.mem, k, s), obj: obj, key: key, val: val[i]}))
	}
	f.setMapLen(obj, tb.Ite(had, oldLen, tb.Add(oldLen, tb.BV(64, 1))))
}

func (f *Frame) lookup(x *ssa.Lookup) {
	tb := f.tb()
	if b, ok := x.X.Type().Underlying().(*types.Basic); ok && b.Info()&types.IsString != 0 {
		v := f.val(x.X)
		idx := f.toInt64(f.val(x.Index)[0], x.Index.Type())
		f.oblig("nopanic:index", "index", tb.Ult(idx, f.u.slen(v[0])), x.Pos(), "string index out of range")
		f.set(x, []*Term{tb.UF("sbyte", BV8, v[0], idx)})
		return
	}
	mt, tk, vs := f.mapParts(x.X.Type())
	obj := f.val(x.X)[0]
	key := f.keySlots(mt, f.val(x.Index), x.Index.Type())
	mem := f.cur.mem
	if f.stub != nil && f.stub.oldLoads[x] {
		mem = f.stub.old
	}
	ok := f.mapHas(mem, x.X.Type(), obj, key)
	res := make([]*Term, len(vs))
	for i, s := range vs {
		k := fmt.Sprintf("%s#v%d", tk, i)
		v := f.u.mc.MSel(f.mapNode(mem, k, s), obj, key)
		res[i] = tb.Ite(ok, v, f.u.zeroOf(s))
	}
	f.loadFacts(mt.Elem(), res)
	if x.CommaOk {
		res = append(res, ok)
	}
	f.set(x, res)
}

func (f *Frame) mapDelete(c *ssa.CallCommon, in ssa.Instruction) {
	tb := f.tb()
	mt, tk, _ := f.mapParts(c.Args[0].Type())
	obj := f.val(c.Args[0])[0]
	key := f.keySlots(mt, f.val(c.Args[1]), c.Args[1].Type())
	had := f.mapHas(f.cur.mem, c.Args[0].Type(), obj, key)
	oldLen := f.u.mc.Sel(f.cur.mem.m[mapLenKey], obj, tb.BV(64, 0))
	if f.writeChecksActive() {
		f.checkWrite(obj, tb.BV(64, 0), tb.BV(64, 1), "mapdelete", in.Pos())
	}
	f.setMapNode(tk+"#has", f.u.mc.mnode(&MapNode{kind: mpStore, sort: BoolSort, prev: f.mapNode(f.cur.mem, tk+"#has", BoolSort), obj: obj, key: key, val: tb.False()}))
	f.setMapLen(obj, tb.Ite(had, tb.Sub(oldLen, tb.BV(64, 1)), oldLen))
}

// rangeNext: iteration over a map or string. The iterator is abstract: each Next
// yields "ok" together with an arbitrary entry that is in the map at that moment (no
// order, no exactly-once guarantee is modelled; termination is not proved).
func (f *Frame) rangeNext(in ssa.Instruction) {
	tb := f.tb()
	switch x := in.(type) {
	case *ssa.Range:
		f.set(x, f.val(x.X)) // the iterator value carries the map object / the string
		f.u.rangeOf[x] = x.X
	case *ssa.Next:
		rng, ok := x.Iter.(*ssa.Range)
		if !ok {
			panic(unsupported("Next on non-Range iterator"))
		}
		tup := x.Type().(*types.Tuple)
		okT := f.u.fresh("rng!ok", BoolSort)
		if x.IsString {
			idx := f.u.fresh("rng!i", BV64)
			s := f.val(rng.X)[0]
			f.u.addFact(tb.Implies(okT, tb.Ult(idx, f.u.slen(s))))
			r := f.u.fresh("rng!r", BVSort(32))
			f.set(x, []*Term{okT, idx, r})
			return
		}
		mt, tk, vs := f.mapParts(rng.X.Type())
		obj := f.val(rng.X)[0]
		kslots := f.u.freshValue("rng!k", tup.At(1).Type())
		for _, fact := range f.u.validFacts(tup.At(1).Type(), kslots, tb.BVU(32, 0xffffffff)) {
			f.u.addFact(fact)
		}
		f.u.strFacts(kslots)
		_ = mt
		has := f.mapHas(f.cur.mem, rng.X.Type(), obj, kslots)
		f.u.addFact(tb.Implies(tb.And(f.cur.reach, okT), has))
		vals := make([]*Term, len(vs))
		for i, s := range vs {
			k := fmt.Sprintf("%s#v%d", tk, i)
			vals[i] = f.u.mc.MSel(f.mapNode(f.cur.mem, k, s), obj, kslots)
		}
		// the value component may be typed as invalid when unused
		if _, isB := tup.At(2).Type().(*types.Basic); isB && tup.At(2).Type().(*types.Basic).Kind() == types.Invalid {
			vals = nil
		}
		f.loadFacts(tup.At(2).Type(), vals)
		res := append([]*Term{okT}, kslots...)
		res = append(res, vals...)
		f.set(x, res)
	}
}

// map lengths live in a memory of their own (a map header is not addressable by Go pointers)
const mapLenKey = "ml"

func (f *Frame) setMapLen(obj, n *Term) {
	f.cur.mem = f.cur.mem.clone()
	f.cur.mem.m[mapLenKey] = f.u.mc.Store(f.cur.mem.m[mapLenKey], obj, f.tb().BV(64, 0), n)
}

func (u *Unit) mapLen(f *Frame, obj *Term) *Term {
	return f.mapLenTerm(f.cur.mem, obj)
}
