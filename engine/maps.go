package main

// Maps are abstract objects. For a map object o of type map[K]V the state is
//   has!<T>(o, key slots...) : Bool      val!<T>,i(o, key slots...) : slot i of V     len!(o) : BV64
// kept, like memory, as Go-side layers over uninterpreted base functions.

import (
	"fmt"
	"go/types"

	"golang.org/x/tools/go/ssa"
)

type mapLayer struct {
	prev   *mapLayer
	kind   int // 0 base, 1 update, 2 delete, 3 ite, 4 havoc-all
	name   string
	obj    *Term
	key    []*Term
	val    []*Term
	c      *Term
	a, b   *mapLayer
	id     int
	vsorts []Sort
}

type mapState struct {
	layers map[string]*mapLayer // by map type string
	lens   *MemNode             // len per object: memory of BV64 at (obj, 0)
}

func (u *Unit) mapKey(t types.Type) string { return types.TypeString(t, nil) }

func (f *Frame) mapLayerOf(t types.Type) *mapLayer {
	u := f.u
	k := u.mapKey(t)
	if u.maps == nil {
		u.maps = map[string]*mapLayer{}
	}
	if l, ok := u.maps[k]; ok {
		return l
	}
	mt := t.Underlying().(*types.Map)
	u.nsym++
	l := &mapLayer{kind: 0, name: fmt.Sprintf("map!%d", u.nsym), vsorts: u.W.layout.Slots(mt.Elem()), id: u.nsym}
	u.maps[k] = l
	return l
}

func (f *Frame) makeMap(x *ssa.MakeMap) {
	panic(unsupported("maps (MakeMap) in " + f.fn.String()))
}

func (f *Frame) mapUpdate(x *ssa.MapUpdate) {
	panic(unsupported("maps (MapUpdate) in " + f.fn.String()))
}

func (f *Frame) lookup(x *ssa.Lookup) {
	if b, ok := x.X.Type().Underlying().(*types.Basic); ok && b.Info()&types.IsString != 0 {
		tb := f.tb()
		v := f.val(x.X)
		idx := f.toInt64(f.val(x.Index)[0], x.Index.Type())
		f.oblig("nopanic:index", "index", tb.Ult(idx, f.u.slen(v[0])), x.Pos(), "string index out of range")
		f.set(x, []*Term{tb.UF("sbyte", BV8, v[0], idx)})
		return
	}
	panic(unsupported("maps (Lookup) in " + f.fn.String()))
}

func (f *Frame) rangeNext(in ssa.Instruction) {
	panic(unsupported("range over map/string in " + f.fn.String()))
}

func (f *Frame) mapDelete(c *ssa.CallCommon, in ssa.Instruction) {
	panic(unsupported("maps (delete) in " + f.fn.String()))
}

func (u *Unit) mapLen(f *Frame, obj *Term) *Term {
	return u.tb.UF("maplen", BV64, obj)
}
