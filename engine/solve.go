package main

import (
	"bytes"
	"context"
	"fmt"
	"os"
	"os/exec"
	"path/filepath"
	"regexp"
	"strings"
	"sync"
	"time"
)

type SolverSpec struct {
	Name string
	Cmd  []string // script path appended
}

func solverSpecs(timeoutS int) []SolverSpec {
	ms := fmt.Sprintf("%d", timeoutS*1000)
	return []SolverSpec{
		{"z3-5.1.0", []string{"z3-new", "-T:" + fmt.Sprint(timeoutS), "-smt2"}},
		{"cvc5-1.0", []string{"cvc5", "--tlimit=" + ms, "--lang=smt2"}},
		{"z3-4.8.12", []string{"z3", "-T:" + fmt.Sprint(timeoutS), "-smt2"}},
	}
}

type Result struct {
	Obl      *Obligation
	Unit     *Unit
	Status   string // discharged | failed | cover-ok | cover-failed
	Answer   string // unsat | sat | unknown | timeout | syntactic
	Solver   string
	Ms       int64
	VCBytes  int
	Model    map[string]string
	Output   string
	Script   string // path (kept for failed obligations)
	SolverMs map[string]int64
}

type Solver struct {
	dir      string
	timeoutS int
	stage1S  int
	sem      chan struct{}
	mu       sync.Mutex
	n        int
}

func NewSolver(dir string, timeoutS, par int) *Solver {
	os.MkdirAll(dir, 0o755)
	return &Solver{dir: dir, timeoutS: timeoutS, stage1S: 4, sem: make(chan struct{}, par)}
}

var valueRe = regexp.MustCompile(`\(\s*(\|[^|]*\||[^\s()]+)\s+(#x[0-9a-fA-F]+|#b[01]+|true|false)\s*\)`)

func runOne(ctx context.Context, spec SolverSpec, script string) (answer string, out string, ms int64) {
	start := time.Now()
	args := append(append([]string{}, spec.Cmd[1:]...), script)
	cmd := exec.CommandContext(ctx, spec.Cmd[0], args...)
	var buf bytes.Buffer
	cmd.Stdout = &buf
	cmd.Stderr = &buf
	cmd.Run()
	ms = time.Since(start).Milliseconds()
	out = buf.String()
	first := strings.TrimSpace(strings.SplitN(out, "\n", 2)[0])
	switch first {
	case "unsat", "sat", "unknown":
		answer = first
	case "timeout":
		answer = "timeout"
	default:
		if ctx.Err() != nil {
			answer = "timeout"
		} else if strings.Contains(out, "timeout") || strings.Contains(out, "interrupted") {
			answer = "timeout"
		} else {
			answer = "error"
		}
	}
	return
}

// Solve decides one obligation.
func (s *Solver) Solve(u *Unit, o *Obligation) *Result {
	tb := u.tb
	r := &Result{Obl: o, Unit: u, SolverMs: map[string]int64{}}
	if !o.IsCover && (o.Prop.IsTrue() || o.Cond.IsFalse()) {
		r.Status, r.Answer, r.Solver = "discharged", "syntactic", "encoder"
		return r
	}
	asserts := append([]*Term{}, u.facts[:o.NFacts]...)
	asserts = append(asserts, o.Cond)
	if !o.IsCover {
		asserts = append(asserts, tb.Not(o.Prop))
	}
	if !o.IsCover {
		asserts = pruneFacts(tb, asserts, len(asserts)-2)
	}
	var gv []*Term
	for _, in := range u.Inputs {
		for _, sl := range in.Slots {
			if sl.Sort.K != KStr {
				gv = append(gv, sl)
			}
		}
	}
	p := NewPrinter(tb)
	script := p.Script(asserts, gv, "")
	r.VCBytes = len(script)
	s.mu.Lock()
	s.n++
	id := s.n
	s.mu.Unlock()
	path := filepath.Join(s.dir, fmt.Sprintf("q%05d.smt2", id))
	os.WriteFile(path, []byte("; "+o.Name+"\n"+script), 0o644)
	scriptALL := path + ".cvc5.smt2"
	specs := solverSpecs(s.timeoutS)
	want := "unsat"
	if o.IsCover {
		want = "sat"
	}
	finish := func(ans, solver, out string, ms int64) {
		r.Answer, r.Solver, r.Ms, r.Output = ans, solver, ms, out
		if ans == "sat" {
			r.Model = map[string]string{}
			for _, m := range valueRe.FindAllStringSubmatch(out, -1) {
				r.Model[strings.Trim(m[1], "|")] = m[2]
			}
		}
	}
	s.sem <- struct{}{}
	// stage 1: z3-new alone with a short limit
	ctx, cancel := context.WithTimeout(context.Background(), time.Duration(s.stage1S)*time.Second)
	s1 := SolverSpec{specs[0].Name, []string{"z3-new", fmt.Sprintf("-T:%d", s.stage1S), "-smt2"}}
	ans, out, ms := runOne(ctx, s1, path)
	cancel()
	<-s.sem
	r.SolverMs[s1.Name] = ms
	if ans == "unsat" || ans == "sat" {
		finish(ans, s1.Name, out, ms)
	} else {
		// stage 2: race all three
		os.WriteFile(scriptALL, []byte("(set-logic ALL)\n"+strings.Replace(script, "(set-option :produce-models true)\n", "", 1)), 0o644)
		type res struct {
			ans, out, name string
			ms             int64
		}
		ch := make(chan res, len(specs))
		ctx2, cancel2 := context.WithCancel(context.Background())
		for _, sp := range specs {
			sp := sp
			go func() {
				s.sem <- struct{}{}
				defer func() { <-s.sem }()
				pth := path
				if strings.HasPrefix(sp.Name, "cvc5") {
					pth = scriptALL
					sp.Cmd = append(sp.Cmd, "--produce-models")
				}
				if ctx2.Err() != nil {
					ch <- res{"cancelled", "", sp.Name, 0}
					return
				}
				ctx3, cancel3 := context.WithTimeout(ctx2, time.Duration(s.timeoutS+2)*time.Second)
				a, o, m := runOne(ctx3, sp, pth)
				cancel3()
				ch <- res{a, o, sp.Name, m}
			}()
		}
		var last res
		got := false
		for i := 0; i < len(specs); i++ {
			x := <-ch
			r.SolverMs[x.name] = x.ms
			if x.ans == "unsat" || x.ans == "sat" {
				finish(x.ans, x.name, x.out, x.ms)
				got = true
				break
			}
			if last.ans == "" || x.ans == "unknown" {
				last = x
			}
		}
		cancel2()
		if !got {
			finish(last.ans, last.name, last.out, last.ms)
			r.Output = "no solver decided the query within the limit; last answer: " + last.ans + "\n" + last.out
		}
		os.Remove(scriptALL)
	}
	switch {
	case o.IsCover && r.Answer == want:
		r.Status = "cover-ok"
	case o.IsCover:
		r.Status = "cover-failed"
	case r.Answer == want:
		r.Status = "discharged"
	default:
		r.Status = "failed"
	}
	if r.Status == "discharged" || r.Status == "cover-ok" {
		os.Remove(path)
	} else {
		r.Script = path
	}
	return r
}

// pruneFacts keeps only the facts that share symbols (transitively) with the goal
// part (the last nGoal asserts start at index goalStart).
func pruneFacts(tb *TB, asserts []*Term, goalStart int) []*Term {
	n := len(asserts)
	syms := make([]map[string]bool, n)
	for i, a := range asserts {
		syms[i] = map[string]bool{}
		tb.Syms(a, syms[i], map[int]bool{})
	}
	live := map[string]bool{}
	keep := make([]bool, n)
	for i := goalStart; i < n; i++ {
		keep[i] = true
		for s := range syms[i] {
			live[s] = true
		}
	}
	changed := true
	for changed {
		changed = false
		for i := 0; i < goalStart; i++ {
			if keep[i] {
				continue
			}
			hit := len(syms[i]) == 0
			for s := range syms[i] {
				if live[s] && !genericSym(s) {
					hit = true
					break
				}
			}
			if hit {
				keep[i] = true
				changed = true
				for s := range syms[i] {
					live[s] = true
				}
			}
		}
	}
	var out []*Term
	for i, a := range asserts {
		if keep[i] {
			out = append(out, a)
		}
	}
	return out
}

// symbols shared by nearly everything do not make a fact relevant on their own
func genericSym(s string) bool {
	return s == "uf:slen" || s == "uf:sbyte" || s == "uf:srank"
}
