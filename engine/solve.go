package main

import (
	"bytes"
	"context"
	"fmt"
	"os"
	"os/exec"
	"path/filepath"
	"regexp"
	"sort"
	"strings"
	"sync"
	"time"
)

type SolverSpec struct {
	Name string
	Cmd  []string // script path appended
}

func solverSpecs(timeoutS int) []SolverSpec {
	ms := fmt.Sprintf("%d", timeoutS*1000)
	return []SolverSpec{
		{"z3-5.1.0", []string{"z3-new", "-T:" + fmt.Sprint(timeoutS), "-smt2"}},
		{"cvc5-1.0", []string{"cvc5", "--tlimit=" + ms, "--lang=smt2"}},
		{"z3-4.8.12", []string{"z3", "-T:" + fmt.Sprint(timeoutS), "-smt2"}},
		// bit-vectors translated to integer arithmetic: decides division / remainder goals that bit-blasting cannot
		{"cvc5-1.0-intblast", []string{"cvc5", "--tlimit=" + ms, "--lang=smt2", "--solve-bv-as-int=sum"}},
	}
}

type Result struct {
	Obl      *Obligation
	Unit     *Unit
	Status   string // discharged | failed | cover-ok | cover-failed
	Answer   string // unsat | sat | unknown | timeout | syntactic
	Solver   string
	Ms       int64
	VCBytes  int
	Cases    int
	Model    map[string]string
	Output   string
	Script   string // path (kept for failed obligations)
	SolverMs map[string]int64
}

type Solver struct {
	dir      string
	timeoutS int
	stage1S  int
	sem      chan struct{}
	mu       sync.Mutex
	n        int
}

func NewSolver(dir string, timeoutS, par int) *Solver {
	os.MkdirAll(dir, 0o755)
	return &Solver{dir: dir, timeoutS: timeoutS, stage1S: 4, sem: make(chan struct{}, par)}
}

var valueRe = regexp.MustCompile(`\(\s*(\|[^|]*\||[^\s()]+)\s+(#x[0-9a-fA-F]+|#b[01]+|true|false)\s*\)`)

func runOne(ctx context.Context, spec SolverSpec, script string) (answer string, out string, ms int64) {
	start := time.Now()
	args := append(append([]string{}, spec.Cmd[1:]...), script)
	cmd := exec.CommandContext(ctx, spec.Cmd[0], args...)
	var buf bytes.Buffer
	cmd.Stdout = &buf
	cmd.Stderr = &buf
	cmd.Run()
	ms = time.Since(start).Milliseconds()
	out = buf.String()
	first := strings.TrimSpace(strings.SplitN(out, "\n", 2)[0])
	switch first {
	case "unsat", "sat", "unknown":
		answer = first
	case "timeout":
		answer = "timeout"
	default:
		if ctx.Err() != nil {
			answer = "timeout"
		} else if strings.Contains(out, "timeout") || strings.Contains(out, "interrupted") {
			answer = "timeout"
		} else {
			answer = "error"
		}
	}
	return
}

type caseRes struct {
	answer, solver, out string
	ms                  int64
	model               map[string]string
	solverMs            map[string]int64
}

// runScript decides one SMT script: z3-new alone first, then a race of all three solvers.
func (s *Solver) runScript(path, script string, skipStage1 bool) caseRes {
	cr := caseRes{solverMs: map[string]int64{}}
	specs := solverSpecs(s.timeoutS)
	if skipStage1 {
		return s.race(path, script, specs, cr, s.timeoutS)
	}
	finish := func(ans, solver, out string, ms int64) {
		cr.answer, cr.solver, cr.ms, cr.out = ans, solver, ms, out
		if ans == "sat" {
			cr.model = map[string]string{}
			for _, m := range valueRe.FindAllStringSubmatch(out, -1) {
				cr.model[strings.Trim(m[1], "|")] = m[2]
			}
		}
	}
	s.sem <- struct{}{}
	ctx, cancel := context.WithTimeout(context.Background(), time.Duration(s.stage1S)*time.Second)
	s1 := SolverSpec{specs[0].Name, []string{"z3-new", fmt.Sprintf("-T:%d", s.stage1S), "-smt2"}}
	ans, out, ms := runOne(ctx, s1, path)
	cancel()
	<-s.sem
	cr.solverMs[s1.Name] = ms
	if ans == "unsat" || ans == "sat" {
		finish(ans, s1.Name, out, ms)
		return cr
	}
	return s.race(path, script, specs, cr, s.timeoutS)
}

// race runs all solver configurations on the script; the first definite answer wins.
func (s *Solver) race(path, script string, specs []SolverSpec, cr caseRes, limitS int) caseRes {
	finish := func(ans, solver, out string, ms int64) {
		cr.answer, cr.solver, cr.ms, cr.out = ans, solver, ms, out
		if ans == "sat" {
			cr.model = map[string]string{}
			for _, m := range valueRe.FindAllStringSubmatch(out, -1) {
				cr.model[strings.Trim(m[1], "|")] = m[2]
			}
		}
	}
	scriptALL := path + ".cvc5.smt2"
	os.WriteFile(scriptALL, []byte("(set-logic ALL)\n"+strings.Replace(script, "(set-option :produce-models true)\n", "", 1)), 0o644)
	defer os.Remove(scriptALL)
	type res struct {
		ans, out, name string
		ms             int64
	}
	ch := make(chan res, len(specs))
	ctx2, cancel2 := context.WithCancel(context.Background())
	for _, sp := range specs {
		sp := sp
		go func() {
			s.sem <- struct{}{}
			defer func() { <-s.sem }()
			pth := path
			if strings.HasPrefix(sp.Name, "cvc5") {
				pth = scriptALL
				sp.Cmd = append(sp.Cmd, "--produce-models")
			}
			if ctx2.Err() != nil {
				ch <- res{"cancelled", "", sp.Name, 0}
				return
			}
			ctx3, cancel3 := context.WithTimeout(ctx2, time.Duration(limitS+2)*time.Second)
			a, o, m := runOne(ctx3, sp, pth)
			cancel3()
			ch <- res{a, o, sp.Name, m}
		}()
	}
	var last res
	got := false
	for i := 0; i < len(specs); i++ {
		x := <-ch
		cr.solverMs[x.name] = x.ms
		if x.ans == "unsat" || x.ans == "sat" {
			finish(x.ans, x.name, x.out, x.ms)
			got = true
			break
		}
		if last.ans == "" || x.ans == "unknown" {
			last = x
		}
	}
	cancel2()
	if !got {
		finish(last.ans, last.name, last.out, last.ms)
		cr.out = "no solver decided the query within the limit; last answer: " + last.ans + "\n" + last.out
	}
	return cr
}

// Solve decides one obligation (possibly as a case split over branch guards).
func (s *Solver) Solve(u *Unit, o *Obligation) *Result {
	tb := u.tb
	r := &Result{Obl: o, Unit: u, SolverMs: map[string]int64{}}
	if !o.IsCover && (o.Prop.IsTrue() || o.Cond.IsFalse()) {
		r.Status, r.Answer, r.Solver = "discharged", "syntactic", "encoder"
		return r
	}
	u.mu.Lock() // the term builder is not goroutine-safe
	asserts := append(append([]*Term{}, u.axioms...), u.facts[:o.NFacts]...)
	asserts = append(asserts, o.Cond)
	if !o.IsCover {
		asserts = append(asserts, tb.Not(o.Prop))
		asserts = pruneFacts(tb, asserts, len(asserts)-2)
	}
	var gv []*Term
	for _, in := range u.Inputs {
		for _, sl := range in.Slots {
			if sl.Sort.K != KStr {
				gv = append(gv, sl)
			}
		}
	}
	var cases [][]*Term
	if o.IsCover {
		cases = [][]*Term{asserts}
	} else {
		// stage 0: only the facts that talk about the terms of the goal (one, then two steps of
		// shared sub-terms). Fewer premises can only make the query weaker: unsat is conclusive,
		// anything else falls through to the whole query.
		if os.Getenv("GPV_NOSTAGE0") == "" {
			// quantified facts (written forall clauses) turn a bit-vector query into a much harder
			// one; most goals do not need them
			qmemo := map[int]bool{}
			var qf []*Term
			for i, a := range asserts {
				if i >= len(asserts)-2 || !hasQuant(a, qmemo) {
					qf = append(qf, a)
				}
			}
			goalQF := len(qf) == len(asserts) || (!hasQuant(asserts[len(asserts)-1], qmemo) && !hasQuant(asserts[len(asserts)-2], qmemo))
			for _, depth := range []int{1, 2, 99} {
				if !goalQF {
					break
				}
				sub := qf // depth 99: every quantifier-free fact
				if depth < 99 {
					sub = relevantFacts(tb, qf, len(qf)-2, depth)
					if len(sub) >= len(asserts) {
						break
					}
				}
				pr := NewPrinter(tb)
				complete := len(sub) == len(asserts) // nothing was left out: a model is a model of the obligation
				var gvr []*Term
				if complete {
					for _, in := range u.Inputs {
						for _, sl := range in.Slots {
							if sl.Sort.K != KStr {
								gvr = append(gvr, sl)
							}
						}
					}
				}
				sc := pr.Script(sub, gvr, "")
				u.mu.Unlock()
				s.mu.Lock()
				s.n++
				idr := s.n
				s.mu.Unlock()
				pathr := filepath.Join(s.dir, fmt.Sprintf("q%05d.smt2", idr))
				os.WriteFile(pathr, []byte("; "+o.Name+" (relevant facts, depth "+fmt.Sprint(depth)+")\n"+sc), 0o644)
				lim := 8
				if depth == 2 {
					lim = 6
				} else if depth > 2 {
					lim = 15
				}
				// z3 and cvc5 side by side: each decides goals the other does not
				all := solverSpecs(lim)
				crr := s.race(pathr, sc, []SolverSpec{all[0], all[1]}, caseRes{solverMs: map[string]int64{}}, lim)
				ar, outr, msr := crr.answer, crr.out, crr.ms
				stage0Solver := crr.solver
				if os.Getenv("GPV_KEEP") == "" {
					os.Remove(pathr)
				}
				r.Ms += msr
				for k, v := range crr.solverMs {
					r.SolverMs[k] += v
				}
				if ar == "unsat" {
					r.VCBytes = len(sc)
					r.Status, r.Answer, r.Solver, r.Cases = "discharged", "unsat", stage0Solver, 1
					return r
				}
				if ar == "sat" && complete {
					r.VCBytes = len(sc)
					r.Status, r.Answer, r.Solver, r.Cases, r.Output = "failed", "sat", stage0Solver, 1, outr
					r.Model = map[string]string{}
					for _, m := range valueRe.FindAllStringSubmatch(outr, -1) {
						r.Model[strings.Trim(m[1], "|")] = m[2]
					}
					u.mu.Lock()
					if u.failAsserts == nil {
						u.failAsserts = map[*Obligation][]*Term{}
					}
					u.failAsserts[o] = asserts
					u.mu.Unlock()
					return r
				}
				u.mu.Lock()
			}
		}
		// then the whole query with a short limit; the case split is for queries that need it
		p0 := NewPrinter(tb)
		whole := p0.Script(asserts, gv, "")
		u.mu.Unlock()
		s.mu.Lock()
		s.n++
		id0 := s.n
		s.mu.Unlock()
		path0 := filepath.Join(s.dir, fmt.Sprintf("q%05d.smt2", id0))
		os.WriteFile(path0, []byte("; "+o.Name+"\n"+whole), 0o644)
		s.sem <- struct{}{}
		ctx0, cancel0 := context.WithTimeout(context.Background(), time.Duration(s.stage1S)*time.Second)
		a0, out0, ms0 := runOne(ctx0, SolverSpec{"z3-5.1.0", []string{"z3-new", fmt.Sprintf("-T:%d", s.stage1S), "-smt2"}}, path0)
		cancel0()
		<-s.sem
		r.Ms += ms0
		r.SolverMs["z3-5.1.0"] += ms0
		r.VCBytes = len(whole)
		if a0 == "unsat" {
			rmQuery(path0)
			r.Status, r.Answer, r.Solver, r.Cases = "discharged", "unsat", "z3-5.1.0", 1
			return r
		}
		if a0 == "sat" {
			r.Status, r.Answer, r.Solver, r.Cases, r.Output, r.Script = "failed", "sat", "z3-5.1.0", 1, out0, path0
			r.Model = map[string]string{}
			for _, m := range valueRe.FindAllStringSubmatch(out0, -1) {
				r.Model[strings.Trim(m[1], "|")] = m[2]
			}
			u.mu.Lock()
			if u.failAsserts == nil {
				u.failAsserts = map[*Obligation][]*Term{}
			}
			u.failAsserts[o] = asserts
			u.mu.Unlock()
			return r
		}
		// second: all solver configurations on the whole query with a moderate limit
		{
			lim := s.timeoutS
			if lim > 8 {
				lim = 8
			}
			cr := s.race(path0, whole, solverSpecs(lim), caseRes{solverMs: map[string]int64{}}, lim)
			r.Ms += cr.ms
			for k, v := range cr.solverMs {
				r.SolverMs[k] += v
			}
			if cr.answer == "unsat" {
				rmQuery(path0)
				r.Status, r.Answer, r.Solver, r.Cases = "discharged", "unsat", cr.solver, 1
				return r
			}
			if cr.answer == "sat" {
				r.Status, r.Answer, r.Solver, r.Cases, r.Output, r.Script, r.Model = "failed", "sat", cr.solver, 1, cr.out, path0, cr.model
				u.mu.Lock()
				if u.failAsserts == nil {
					u.failAsserts = map[*Obligation][]*Term{}
				}
				u.failAsserts[o] = asserts
				u.mu.Unlock()
				return r
			}
		}
		if os.Getenv("GPV_KEEP") == "" {
			os.Remove(path0)
		}
		u.mu.Lock()
		cases = splitCases(tb, asserts, u.branchConds)
	}
	var scripts []string
	for _, c := range cases {
		p := NewPrinter(tb)
		g := gv
		if os.Getenv("GPV_ALLSYMS") != "" {
			names := map[string]bool{}
			seen := map[int]bool{}
			for _, a := range c {
				tb.Syms(a, names, seen)
			}
			g = nil
			for n := range names {
				if s, ok := tb.syms[n]; ok && s.K != KStr {
					g = append(g, tb.Sym(n, s))
				}
			}
			sort.Slice(g, func(i, j int) bool { return g[i].Name < g[j].Name })
		}
		scripts = append(scripts, p.Script(c, g, ""))
	}
	u.mu.Unlock()
	r.Cases = len(cases)
	want := "unsat"
	if o.IsCover {
		want = "sat"
	}
	allOK := true
	for ci, script := range scripts {
		r.VCBytes += len(script)
		s.mu.Lock()
		s.n++
		id := s.n
		s.mu.Unlock()
		path := filepath.Join(s.dir, fmt.Sprintf("q%05d.smt2", id))
		os.WriteFile(path, []byte("; "+o.Name+"\n"+script), 0o644)
		cr := s.runScript(path, script, !o.IsCover && len(scripts) == 1)
		r.Ms += cr.ms
		for k, v := range cr.solverMs {
			r.SolverMs[k] += v
		}
		r.Answer, r.Solver = cr.answer, cr.solver
		if cr.answer != want {
			allOK = false
			r.Model, r.Output, r.Script = cr.model, cr.out, path
			if !o.IsCover {
				u.mu.Lock()
				if u.failAsserts == nil {
					u.failAsserts = map[*Obligation][]*Term{}
				}
				u.failAsserts[o] = cases[ci]
				u.mu.Unlock()
			}
			break
		}
		if o.IsCover {
			r.Model = cr.model
		}
		if os.Getenv("GPV_KEEP") == "" {
			os.Remove(path)
		}
	}
	if len(scripts) == 0 {
		// every case collapsed syntactically
		r.Answer, r.Solver = "syntactic", "encoder"
	}
	switch {
	case o.IsCover && allOK:
		r.Status = "cover-ok"
	case o.IsCover && r.Answer == "unsat":
		r.Status = "cover-failed" // the assumptions are contradictory
	case o.IsCover:
		r.Status = "cover-unknown" // no answer within the limit: not an alarm, reported as unchecked
	case allOK:
		r.Status = "discharged"
		if r.Answer != "syntactic" {
			r.Answer = "unsat"
		}
	default:
		r.Status = "failed"
	}
	return r
}

// splitCases performs a case analysis over the branch guards that occur most often as
// ite conditions in the query: substituting a guard by true / false lets the term
// builder collapse the memory-read ite chains before the solver sees them. The
// disjunction of the cases is the original query, so all cases must be unsat.
func splitHeuristic(tb *TB, cases [][]*Term, maxGuards int) [][]*Term {
	for g := 0; g < maxGuards; g++ {
		// score guards over all current cases
		score := map[*Term]int{}
		size := 0
		seen := map[int]bool{}
		var walk func(t *Term)
		walk = func(t *Term) {
			if seen[t.id] {
				return
			}
			seen[t.id] = true
			size++
			if t.Op == "ite" {
				var atoms func(c *Term, d int)
				atoms = func(c *Term, d int) {
					if c.hasBV {
						return
					}
					switch {
					case c.Op == "not":
						atoms(c.Args[0], d)
					case (c.Op == "and" || c.Op == "or") && d < 3:
						for _, a := range c.Args {
							atoms(a, d+1)
						}
					default:
						score[c]++
						// object-identity atoms decide whole memory layers: prefer them
						if c.Op == "=" && c.Args[0].Sort.K == KBV && c.Args[0].Sort.W == 32 {
							score[c] += 2
						}
					}
				}
				atoms(t.Args[0], 0)
			}
			for _, a := range t.Args {
				walk(a)
			}
		}
		for _, c := range cases {
			for _, a := range c {
				walk(a)
			}
		}
		if size < 1500 {
			break
		}
		var best *Term
		for c, n := range score {
			if n < 6 {
				continue
			}
			if best == nil || n > score[best] || n == score[best] && c.id < best.id {
				best = c
			}
		}
		if best == nil {
			break
		}
		var next [][]*Term
		for _, c := range cases {
			for _, val := range []*Term{tb.True(), tb.False()} {
				m := map[*Term]*Term{best: val}
				memo := map[int]*Term{}
				var nc []*Term
				dead := false
				for _, a := range c {
					x := tb.SubstMemo(a, m, memo)
					if x.IsFalse() {
						dead = true
						break
					}
					if !x.IsTrue() {
						nc = append(nc, x)
					}
				}
				if dead {
					continue
				}
				// remember the case assumption (needed for models and for guards that are not symbols)
				if val.IsTrue() {
					nc = append(nc, best)
				} else {
					nc = append(nc, tb.Not(best))
				}
				next = append(next, nc)
			}
		}
		cases = next
		if len(cases) == 0 {
			break
		}
	}
	return cases
}

// pruneFacts keeps only the facts that share symbols (transitively) with the goal
// part (the last nGoal asserts start at index goalStart).
func pruneFacts(tb *TB, asserts []*Term, goalStart int) []*Term {
	n := len(asserts)
	syms := make([]map[string]bool, n)
	for i, a := range asserts {
		syms[i] = map[string]bool{}
		tb.Syms(a, syms[i], map[int]bool{})
	}
	live := map[string]bool{}
	keep := make([]bool, n)
	for i := goalStart; i < n; i++ {
		keep[i] = true
		for s := range syms[i] {
			live[s] = true
		}
	}
	changed := true
	for changed {
		changed = false
		for i := 0; i < goalStart; i++ {
			if keep[i] {
				continue
			}
			hit := len(syms[i]) == 0
			for s := range syms[i] {
				if live[s] && !genericSym(s) {
					hit = true
					break
				}
			}
			if hit {
				keep[i] = true
				changed = true
				for s := range syms[i] {
					live[s] = true
				}
			}
		}
	}
	var out []*Term
	for i, a := range asserts {
		if keep[i] {
			out = append(out, a)
		}
	}
	return out
}

func hasQuant(t *Term, memo map[int]bool) bool {
	if v, ok := memo[t.id]; ok {
		return v
	}
	r := t.Op == "forall" || t.Op == "exists"
	if !r {
		for _, a := range t.Args {
			if hasQuant(a, memo) {
				r = true
				break
			}
		}
	}
	memo[t.id] = r
	return r
}

// relevantFacts keeps the goal part and the facts within `depth` steps of it, where two
// assertions are one step apart if they share an atom: a symbol or an application of an
// uninterpreted function (a memory cell, a string length, ...). Atoms that occur in a large
// share of the assertions (the receiver pointer, say) do not link anything.
func relevantFacts(tb *TB, asserts []*Term, goalStart int, depth int) []*Term {
	n := len(asserts)
	atoms := make([]map[int]bool, n)
	freq := map[int]int{}
	for i, a := range asserts {
		m := map[int]bool{}
		seen := map[int]bool{}
		var walk func(t *Term)
		walk = func(t *Term) {
			if seen[t.id] {
				return
			}
			seen[t.id] = true
			if !t.hasBV && (t.Op == "sym" || strings.HasPrefix(t.Op, "uf:")) {
				m[t.id] = true
			}
			for _, x := range t.Args {
				walk(x)
			}
		}
		walk(a)
		atoms[i] = m
		for id := range m {
			freq[id]++
		}
	}
	maxFreq := n / 6
	if maxFreq < 24 {
		maxFreq = 24
	}
	live := map[int]bool{}
	keep := make([]bool, n)
	for i := goalStart; i < n; i++ {
		keep[i] = true
		for id := range atoms[i] {
			live[id] = true
		}
	}
	for d := 0; d < depth; d++ {
		var add []int
		for i := 0; i < goalStart; i++ {
			if keep[i] {
				continue
			}
			hit := len(atoms[i]) == 0
			for id := range atoms[i] {
				if live[id] && freq[id] <= maxFreq {
					hit = true
					break
				}
			}
			if hit {
				add = append(add, i)
			}
		}
		if len(add) == 0 {
			break
		}
		for _, i := range add {
			keep[i] = true
			for id := range atoms[i] {
				live[id] = true
			}
		}
	}
	var out []*Term
	for i, a := range asserts {
		if keep[i] {
			out = append(out, a)
		}
	}
	return out
}

// symbols shared by nearly everything do not make a fact relevant on their own
func genericSym(s string) bool {
	return s == "uf:slen" || s == "uf:sbyte" || s == "uf:srank"
}

var _ = sort.Strings

// rmQuery removes a decided query file unless GPV_KEEP asks to keep them for inspection.
func rmQuery(p string) {
	if os.Getenv("GPV_KEEP") == "" {
		os.Remove(p)
	}
}
