package main

// Flattening of Go types into primitive slots.
//
//   bool                    -> [Bool]
//   intN / uintN / uintptr  -> [BV N]
//   float32/64, complex     -> [BV 64] (uninterpreted arithmetic)
//   string                  -> [Str]
//   *T, unsafe.Pointer      -> [Obj, BV64 off]
//   []T                     -> [Obj, BV64 off, BV64 len, BV64 cap]
//   map, chan               -> [Obj]
//   func                    -> [BV32 fnid, Obj env]
//   interface               -> [BV32 typetag, Obj, BV64 off]   (non-pointer payloads are boxed)
//   struct                  -> concatenation of the fields
//   [N]T                    -> N copies of T
//   tuple                   -> concatenation

import (
	"fmt"
	"go/types"
)

type Layout struct {
	sizes map[types.Type]int64
}

func NewLayout() *Layout { return &Layout{sizes: map[types.Type]int64{}} }

const maxValueSlots = 4096

func basicSort(b *types.Basic) (Sort, bool) {
	switch b.Kind() {
	case types.Bool, types.UntypedBool:
		return BoolSort, true
	case types.Int8, types.Uint8:
		return BVSort(8), true
	case types.Int16, types.Uint16:
		return BVSort(16), true
	case types.Int32, types.Uint32, types.UntypedRune:
		return BVSort(32), true
	case types.Int, types.Uint, types.Int64, types.Uint64, types.Uintptr, types.UntypedInt:
		return BVSort(64), true
	case types.Float32, types.Float64, types.UntypedFloat:
		return BVSort(64), true
	case types.String, types.UntypedString:
		return StrSort, true
	}
	return Sort{}, false
}

func isSigned(t types.Type) bool {
	if b, ok := t.Underlying().(*types.Basic); ok {
		return b.Info()&types.IsInteger != 0 && b.Info()&types.IsUnsigned == 0
	}
	return false
}

func isFloat(t types.Type) bool {
	if b, ok := t.Underlying().(*types.Basic); ok {
		return b.Info()&types.IsFloat != 0
	}
	return false
}

// Size returns the number of slots of t (computed arithmetically).
func (l *Layout) Size(t types.Type) int64 {
	if s, ok := l.sizes[t]; ok {
		return s
	}
	var s int64
	switch u := t.Underlying().(type) {
	case *types.Basic:
		if u.Kind() == types.Invalid {
			s = 0 // unused component of a range tuple
		} else if u.Kind() == types.UnsafePointer {
			s = 2
		} else if u.Kind() == types.Complex64 || u.Kind() == types.Complex128 {
			s = 2
		} else if u.Kind() == types.UntypedNil {
			s = 2
		} else {
			s = 1
		}
	case *types.Pointer:
		s = 2
	case *types.Slice:
		s = 4
	case *types.Map, *types.Chan:
		s = 1
	case *types.Signature:
		s = 2
	case *types.Interface:
		s = 3
	case *types.Struct:
		for i := 0; i < u.NumFields(); i++ {
			s += l.Size(u.Field(i).Type())
		}
	case *types.Array:
		s = u.Len() * l.Size(u.Elem())
	case *types.Tuple:
		for i := 0; i < u.Len(); i++ {
			s += l.Size(u.At(i).Type())
		}
	case *types.TypeParam:
		panic(unsupported("type parameter in layout"))
	default:
		panic(unsupported(fmt.Sprintf("layout of %T", u)))
	}
	l.sizes[t] = s
	return s
}

// FieldOffset returns the slot offset of field i of struct type st.
func (l *Layout) FieldOffset(st *types.Struct, i int) int64 {
	var s int64
	for j := 0; j < i; j++ {
		s += l.Size(st.Field(j).Type())
	}
	return s
}

// Slots returns the slot sorts of a value of type t (expanded).
func (l *Layout) Slots(t types.Type) []Sort {
	if l.Size(t) > maxValueSlots {
		panic(unsupported(fmt.Sprintf("value of type %s too large (%d slots)", t, l.Size(t))))
	}
	var out []Sort
	l.slots(t, &out)
	return out
}

func (l *Layout) slots(t types.Type, out *[]Sort) {
	switch u := t.Underlying().(type) {
	case *types.Basic:
		switch u.Kind() {
		case types.Invalid:
		case types.UnsafePointer, types.UntypedNil:
			*out = append(*out, ObjSort, BV64)
		case types.Complex64, types.Complex128:
			*out = append(*out, BV64, BV64)
		default:
			s, ok := basicSort(u)
			if !ok {
				panic(unsupported("basic type " + u.String()))
			}
			*out = append(*out, s)
		}
	case *types.Pointer:
		*out = append(*out, ObjSort, BV64)
	case *types.Slice:
		*out = append(*out, ObjSort, BV64, BV64, BV64)
	case *types.Map, *types.Chan:
		*out = append(*out, ObjSort)
	case *types.Signature:
		*out = append(*out, BVSort(32), ObjSort)
	case *types.Interface:
		*out = append(*out, BVSort(32), ObjSort, BV64)
	case *types.Struct:
		for i := 0; i < u.NumFields(); i++ {
			l.slots(u.Field(i).Type(), out)
		}
	case *types.Array:
		for i := int64(0); i < u.Len(); i++ {
			l.slots(u.Elem(), out)
		}
	case *types.Tuple:
		for i := 0; i < u.Len(); i++ {
			l.slots(u.At(i).Type(), out)
		}
	default:
		panic(unsupported(fmt.Sprintf("slots of %T", u)))
	}
}

// ElemSorts returns the distinct slot sorts occurring in t (for range copies / havocs).
func (l *Layout) ElemSorts(t types.Type) []Sort {
	seen := map[Sort]bool{}
	var out []Sort
	var rec func(t types.Type, depth int)
	rec = func(t types.Type, depth int) {
		switch u := t.Underlying().(type) {
		case *types.Struct:
			for i := 0; i < u.NumFields(); i++ {
				rec(u.Field(i).Type(), depth+1)
			}
		case *types.Array:
			rec(u.Elem(), depth+1)
		case *types.Tuple:
			for i := 0; i < u.Len(); i++ {
				rec(u.At(i).Type(), depth+1)
			}
		default:
			var ss []Sort
			l.slots(t, &ss)
			for _, s := range ss {
				if !seen[s] {
					seen[s] = true
					out = append(out, s)
				}
			}
		}
	}
	rec(t, 0)
	return out
}

type unsupportedErr struct{ msg string }

func (u unsupportedErr) Error() string { return "unsupported: " + u.msg }
func unsupported(msg string) unsupportedErr { return unsupportedErr{msg} }

// walkSlots visits the leaf components of a value of type t in slot order.
func walkSlots(l *Layout, t types.Type, visit func(kind string, n int)) {
	switch u := t.Underlying().(type) {
	case *types.Struct:
		for i := 0; i < u.NumFields(); i++ {
			walkSlots(l, u.Field(i).Type(), visit)
		}
	case *types.Array:
		if u.Len()*l.Size(u.Elem()) > maxValueSlots {
			visit("other", int(u.Len()*l.Size(u.Elem())))
			return
		}
		for i := int64(0); i < u.Len(); i++ {
			walkSlots(l, u.Elem(), visit)
		}
	case *types.Slice:
		visit("slice", 4)
	case *types.Basic:
		if u.Info()&types.IsString != 0 {
			visit("string", 1)
		} else {
			visit("other", int(l.Size(t)))
		}
	default:
		visit("other", int(l.Size(t)))
	}
}
