package main

import (
	"fmt"
	"go/types"

	"golang.org/x/tools/go/ssa"
)

// collectMapTypes finds every map type that fn (or a function it may call statically) touches.
func collectMapTypes(fn *ssa.Function, into map[string]types.Type, seen map[*ssa.Function]bool, depth int) {
	if fn == nil || seen[fn] || depth > 10 {
		return
	}
	seen[fn] = true
	add := func(t types.Type) {
		if t == nil {
			return
		}
		if _, ok := t.Underlying().(*types.Map); ok {
			into[types.TypeString(t.Underlying(), nil)] = t
		}
	}
	for _, b := range fn.Blocks {
		for _, in := range b.Instrs {
			if v, ok := in.(ssa.Value); ok {
				add(v.Type())
			}
			var ops []*ssa.Value
			for _, op := range in.Operands(ops) {
				if *op == nil {
					continue
				}
				add((*op).Type())
				switch x := (*op).(type) {
				case *ssa.Function:
					collectMapTypes(x, into, seen, depth+1)
				case *ssa.MakeClosure:
					if f2, ok := x.Fn.(*ssa.Function); ok {
						collectMapTypes(f2, into, seen, depth+1)
					}
				}
			}
		}
	}
	for _, a := range fn.AnonFuncs {
		collectMapTypes(a, into, seen, depth+1)
	}
}

// initMaps creates the base state of every map type the unit may touch.
func (u *Unit) initMaps(fns ...*ssa.Function) {
	u.M0 = u.M0.clone()
	u.addMapTypes(&u.M0, fns...)
}

func (u *Unit) addMapTypes(mem *MemState, fns ...*ssa.Function) {
	ts := map[string]types.Type{}
	seen := map[*ssa.Function]bool{}
	for _, fn := range fns {
		collectMapTypes(fn, ts, seen, 0)
	}
	for tk, t := range ts {
		if _, ok := mem.mp[tk+"#has"]; ok {
			continue
		}
		mt := t.Underlying().(*types.Map)
		var vs []Sort
		func() {
			defer func() { recover() }() // value types outside the subset: the map stays unmodelled
			vs = u.W.layout.Slots(mt.Elem())
			u.W.layout.Slots(mt.Key())
			u.nsym++
			mem.mp[tk+"#has"] = u.mc.mnode(&MapNode{kind: mpBase, sort: BoolSort, name: fmt.Sprintf("mp0!%d", u.nsym)})
			for i, s := range vs {
				u.nsym++
				mem.mp[fmt.Sprintf("%s#v%d", tk, i)] = u.mc.mnode(&MapNode{kind: mpBase, sort: s, name: fmt.Sprintf("mp0!%d", u.nsym)})
			}
		}()
	}
}

// havocMaps forgets the content of every pre-existing map object.
func (f *Frame) havocMaps(mem *MemState, limit *Term) {
	for k, m := range mem.mp {
		f.u.nsym++
		fresh := f.u.mc.mnode(&MapNode{kind: mpBase, sort: m.sort, name: fmt.Sprintf("mphv!%d", f.u.nsym)})
		mem.mp[k] = f.u.mc.mnode(&MapNode{kind: mpHavocObjs, sort: m.sort, prev: m, limit: limit, fresh: fresh})
	}
}
