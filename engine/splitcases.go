package main

// Case analysis of a verification condition over the branch conditions of the
// program (in program order). Substituting a branch condition by true / false and
// re-simplifying collapses the control-flow merges (ite-terms over values and
// memories) syntactically, so that each case is the VC of (a bundle of) paths with
// mostly concrete addresses. The disjunction of the cases is the original query:
// the obligation is discharged iff every case is unsat.

const maxCases = 48

func termSize(ts []*Term, limit int) int {
	seen := map[int]bool{}
	n := 0
	var walk func(t *Term)
	walk = func(t *Term) {
		if seen[t.id] || n > limit {
			return
		}
		seen[t.id] = true
		n++
		for _, a := range t.Args {
			walk(a)
		}
	}
	for _, t := range ts {
		walk(t)
	}
	return n
}

func containsTerm(ts []*Term, g *Term) bool {
	seen := map[int]bool{}
	found := false
	var walk func(t *Term)
	walk = func(t *Term) {
		if found || seen[t.id] {
			return
		}
		seen[t.id] = true
		if t == g {
			found = true
			return
		}
		for _, a := range t.Args {
			walk(a)
		}
	}
	for _, t := range ts {
		walk(t)
		if found {
			return true
		}
	}
	return false
}

func substCase(tb *TB, c []*Term, g, val *Term) ([]*Term, bool) {
	m := map[*Term]*Term{g: val}
	memo := map[int]*Term{}
	var nc []*Term
	for _, a := range c {
		x := tb.SubstMemo(a, m, memo)
		if x.IsFalse() {
			return nil, false
		}
		if !x.IsTrue() {
			nc = append(nc, x)
		}
	}
	if val.IsTrue() {
		nc = append(nc, g)
	} else {
		nc = append(nc, tb.Not(g))
	}
	return nc, true
}

func splitCases(tb *TB, asserts []*Term, guards []*Term) [][]*Term {
	cases := [][]*Term{asserts}
	if termSize(asserts, 800) < 800 {
		return cases
	}
	for _, g := range guards {
		if len(cases) >= maxCases {
			break
		}
		var next [][]*Term
		for _, c := range cases {
			if len(next)+2 > maxCases*2 || !containsTerm(c, g) {
				next = append(next, c)
				continue
			}
			for _, val := range []*Term{tb.True(), tb.False()} {
				if nc, ok := substCase(tb, c, g, val); ok {
					next = append(next, nc)
				}
			}
		}
		cases = next
		if len(cases) == 0 {
			return cases
		}
	}
	// remaining large cases: split on the most frequent ite guards (aliasing questions)
	var out [][]*Term
	for _, c := range cases {
		if termSize(c, 4000) >= 4000 && len(cases) < maxCases {
			out = append(out, splitHeuristic(tb, [][]*Term{c}, 2)...)
		} else {
			out = append(out, c)
		}
	}
	return out
}
