package main

// SSA -> verification conditions. One Unit per function-under-contract or lemma.
// A Frame is one activation (the function itself, an inlined callee, a contract
// stub evaluated in spec mode).

import (
	"fmt"
	"go/token"
	"math/big"
	"go/types"
	"sort"
	"strings"
	"sync"

	"golang.org/x/tools/go/ssa"
)

const freshBase = 0x80000000

type Obligation struct {
	Name    string
	Class   string
	Prop    *Term
	Cond    *Term
	NFacts  int
	IsCover bool // must be satisfiable
	Pos     token.Position
	Detail  string
}

type Fact struct {
	T     *Term
	Quant bool
}

type substrRec struct{ r, s, lo, hi *Term }
type b2sRec struct {
	r        *Term
	mem      *MemNode
	obj, off *Term
	n        *Term
}

type InputDesc struct {
	Name  string
	Type  types.Type
	Slots []*Term
}

type Unit struct {
	Name     string // e.g. capturetypes.ClassifyPacketDirectionV4 or lemma:capturetypes.orientV4
	Kind     string // "func" | "lemma"
	Props    []string
	W        *World
	tb       *TB
	mc       *MemCtx
	facts    []*Term
	obls     []*Obligation
	Inputs   []InputDesc
	M0       MemState
	Notes    []string // unsupported constructs / havocked calls (reported in evidence)
	Trusted  map[string]bool
	objCtr   int64
	nsym     int
	strConst map[string]*Term
	strConstVal map[*Term]string // reverse of strConst
	strExt      map[[2]int]bool  // extensionality instances emitted (term id pairs)
	oblNames map[string]int
	Fn       *ssa.Function
	Contract *Contract
	rankUsed bool
	factSeen map[int]bool
	zeroBases   map[string]*MemNode
	substrs     []substrRec
	b2s         []b2sRec
	unsafeCasts map[*ssa.Convert]types.Type
	ifaceEqUsed bool
	closures     map[*ssa.MakeClosure]*closureInfo
	closureByEnv map[int]*closureInfo
	inlineStack  map[*ssa.Function]bool
	oldMem       MemState
	mayPanic     bool
	noInfer      bool // flag noinfer: no inferred loop invariants (they only serve index obligations)
	nonBlocking  bool // flag nonblocking: a channel send must find room in the queue
	noEscapeObjs []*Term // object ids of parameters under a noescape clause
	explicitPanicOK bool // flag explicitpanic: panic(...) statements (internal consistency checks) are not obligations
	lemmaMode    bool
	roGlobals    []string
	axioms       []*Term
	privateObjs  map[int64]bool
	mu           sync.Mutex
	failAsserts  map[*Obligation][]*Term
	mapBases     map[string]*MapNode
	mapObjs      []int64
	rangeOf      map[*ssa.Range]ssa.Value
	b2sDone      int
	branchConds  []*Term
	branchSeen   map[int]bool
	sliceCaps    []*Term
	ptrs         []typedPtr
	allocs       []typedPtr // local variables (struct / array) allocated so far: concrete object ids
	ptrSeen      map[[2]int]bool
	Failed   string // set when the unit could not be encoded at all
}

func (u *Unit) fresh(prefix string, s Sort) *Term {
	u.nsym++
	return u.tb.Sym(fmt.Sprintf("%s!%d", prefix, u.nsym), s)
}

func (u *Unit) addFact(t *Term) {
	if t.IsTrue() {
		return
	}
	if u.factSeen == nil {
		u.factSeen = map[int]bool{}
	}
	if u.factSeen[t.id] {
		return
	}
	u.factSeen[t.id] = true
	u.facts = append(u.facts, t)
}

func (u *Unit) note(s string) {
	for _, n := range u.Notes {
		if n == s {
			return
		}
	}
	u.Notes = append(u.Notes, s)
}

func (u *Unit) addObl(class, anchor string, cond, prop *Term, pos token.Position, detail string) {
	if prop.IsTrue() || cond.IsFalse() {
		// trivially discharged: still counted (decided syntactically by the encoder)
	}
	base := fmt.Sprintf("%s#%s@%s", u.Name, class, anchor)
	u.oblNames[base]++
	name := fmt.Sprintf("%s[%d]", base, u.oblNames[base])
	u.obls = append(u.obls, &Obligation{Name: name, Class: class, Prop: prop, Cond: cond, NFacts: len(u.facts), Pos: pos, Detail: detail})
}

func (u *Unit) addCover(anchor string, cond *Term, pos token.Position) {
	base := fmt.Sprintf("%s#cover@%s", u.Name, anchor)
	u.oblNames[base]++
	name := fmt.Sprintf("%s[%d]", base, u.oblNames[base])
	u.obls = append(u.obls, &Obligation{Name: name, Class: "cover", Prop: u.tb.True(), Cond: cond, NFacts: len(u.facts), IsCover: true, Pos: pos})
}

// ------------------------------------------------------------------ frames

type BState struct {
	reach *Term
	mem   MemState
}

type retRec struct {
	reach *Term
	vals  []*Term
	mem   MemState
}

type deferRec struct {
	cond *Term
	call *ssa.CallCommon
	args [][]*Term
	fn   []*Term // func value slots for closure calls
	pos  token.Pos
	instr ssa.Instruction
}

type Frame struct {
	hvBound *Term // see havocBound
	u        *Unit
	fn       *ssa.Function
	vals     map[ssa.Value][]*Term
	spec     bool // spec mode: no panic obligations, loads totalised
	depth    int
	anchor   string // prefix for obligation anchors (call chain)
	cur      BState // state while executing a block
	edge     map[[2]int]BState
	rets     []retRec
	defers   []deferRec
	freeVars [][]*Term // values of fn.FreeVars (pointers)
	// contract-stub evaluation
	stub *stubEval
	// frame checking: nil = no check
	frame *frameSpec
	// assigns clauses of the loops being executed (inherited by expanded callees)
	loopFrames []*loopFrame
	curBlk     *ssa.BasicBlock
	// memory at the entry of an expanded callee: what verifOld means in its loop contracts
	entryMem *MemState
	// loop-iteration allocations start at this counter (for loop assigns checks)
	callCount map[string]int
	inl       map[string]bool // callees forced to be inlined (lemma directive)
	loopRuns  map[*ssa.BasicBlock]*loopRun
	hdr       map[*ssa.BasicBlock]*loopInfo
	order     []*ssa.BasicBlock
	entry     BState
	loopLocalWrites []localRegion
	probe     *probeRec // non-nil while a loop body is executed only to collect back-edge states
	unroll    *unrollRec // non-nil while a constant-trip loop is executed by unrolling
}

type region struct {
	obj, lo, hi *Term // slots [lo,hi) of obj
	sorts       []Sort
	cond        *Term
	isMap       bool // the region is a Go map object: entries may be added, changed, deleted
}

type frameSpec struct {
	regions []region
	active  bool
}

func (f *Frame) tb() *TB { return f.u.tb }

func (f *Frame) val(v ssa.Value) []*Term {
	if t, ok := f.vals[v]; ok {
		return t
	}
	switch x := v.(type) {
	case *ssa.Const:
		t := f.constVal(x)
		return t
	case *ssa.Global:
		id := f.u.W.globalID(x)
		return []*Term{f.tb().BV(32, id), f.tb().BV(64, 0)}
	case *ssa.Function:
		return []*Term{f.tb().BV(32, f.u.W.funcID(x)), f.tb().BV(32, 0)}
	case *ssa.Builtin:
		panic(unsupported("builtin as value: " + x.Name()))
	case *ssa.FreeVar:
		for i, fv := range f.fn.FreeVars {
			if fv == x {
				return f.freeVars[i]
			}
		}
	}
	panic(fmt.Sprintf("no value for %s (%T) in %s", v.Name(), v, f.fn.Name()))
}

func (f *Frame) set(v ssa.Value, t []*Term) { f.vals[v] = t }

func (f *Frame) pos(p token.Pos) token.Position {
	if !p.IsValid() {
		return token.Position{}
	}
	return f.u.W.fset.Position(p)
}

// zero value of a type, as slots
func (u *Unit) zero(t types.Type) []*Term {
	ss := u.W.layout.Slots(t)
	out := make([]*Term, len(ss))
	for i, s := range ss {
		out[i] = u.zeroOf(s)
	}
	return out
}

func (u *Unit) zeroOf(s Sort) *Term {
	switch s.K {
	case KBool:
		return u.tb.False()
	case KBV:
		return u.tb.BV(s.W, 0)
	case KStr:
		return u.strConstTerm("")
	}
	panic("zeroOf")
}

func (u *Unit) strConstTerm(s string) *Term {
	if t, ok := u.strConst[s]; ok {
		return t
	}
	t := u.tb.Sym(fmt.Sprintf("str!%d", len(u.strConst)), StrSort)
	u.strConst[s] = t
	if u.strConstVal == nil {
		u.strConstVal = map[*Term]string{}
	}
	u.strConstVal[t] = s
	// axioms (available to every query, never rolled back): length and bytes
	u.axioms = append(u.axioms, u.tb.Eq(u.slen(t), u.tb.BV(64, int64(len(s)))))
	for i := 0; i < len(s) && i < 256; i++ {
		u.axioms = append(u.axioms, u.tb.Eq(u.tb.UF("sbyte", BV8, t, u.tb.BV(64, int64(i))), u.tb.BV(8, int64(s[i]))))
	}
	// distinct from the other constants
	for o, ot := range u.strConst {
		if o != s {
			u.axioms = append(u.axioms, u.tb.Not(u.tb.Eq(t, ot)))
		}
	}
	return t
}

func (u *Unit) slen(s *Term) *Term {
	if c, ok := u.strConstVal[s]; ok {
		return u.tb.BV(64, int64(len(c)))
	}
	return u.tb.UF("slen", BV64, s)
}

// strEq: equality of two strings. Strings are an uninterpreted sort with length and byte
// observers; against a constant of at most 64 bytes the extensionality instance is added
// (equal length and equal bytes imply equality), the other direction is congruence.
func (u *Unit) strEq(a, b *Term) *Term {
	tb := u.tb
	for _, pr := range [][2]*Term{{a, b}, {b, a}} {
		x, c := pr[0], pr[1]
		cs, ok := u.strConstVal[c]
		if !ok || len(cs) > 64 || x == c {
			continue
		}
		if _, both := u.strConstVal[x]; both {
			continue // two constants: distinct by axiom
		}
		if u.strExt == nil {
			u.strExt = map[[2]int]bool{}
		}
		k := [2]int{x.id, c.id}
		if u.strExt[k] {
			break
		}
		if x.hasBV {
			// inside a quantifier body: the instance would leave the bound variable free in a global
			// axiom (the equality stays an uninterpreted atom there)
			break
		}
		u.strExt[k] = true
		conj := []*Term{tb.Eq(u.slen(x), tb.BV(64, int64(len(cs))))}
		for i := 0; i < len(cs); i++ {
			conj = append(conj, tb.Eq(tb.UF("sbyte", BV8, x, tb.BV(64, int64(i))), tb.BV(8, int64(cs[i]))))
		}
		u.axioms = append(u.axioms, tb.Implies(tb.And(conj...), tb.Eq(x, c)))
		break
	}
	return tb.Eq(a, b)
}

func (f *Frame) constVal(c *ssa.Const) []*Term {
	tb := f.tb()
	t := c.Type()
	if c.Value == nil {
		return f.u.zero(t)
	}
	switch ut := t.Underlying().(type) {
	case *types.Basic:
		return []*Term{f.u.basicConst(c, ut)}
	}
	_ = tb
	panic(unsupported("constant of type " + t.String()))
}

func (u *Unit) basicConst(c *ssa.Const, b *types.Basic) *Term {
	tb := u.tb
	info := b.Info()
	switch {
	case info&types.IsBoolean != 0:
		return tb.Bool(c.Value.String() == "true")
	case info&types.IsInteger != 0:
		s, _ := basicSort(b)
		if isSigned(b) {
			return tb.BV(s.W, c.Int64())
		}
		return tb.BVU(s.W, c.Uint64())
	case info&types.IsString != 0:
		return u.strConstTerm(constantString(c))
	case info&types.IsFloat != 0:
		// floats are uninterpreted: a constant becomes a named symbol per literal
		return tb.Sym("flt!"+c.Value.ExactString(), BV64)
	}
	panic(unsupported("basic constant " + b.String()))
}

// ------------------------------------------------------------------ validity facts

// validFacts returns the Go-memory-safety facts that hold for any value of type t.
func (u *Unit) validFacts(t types.Type, slots []*Term, objBound *Term) []*Term {
	tb := u.tb
	var out []*Term
	i := 0
	var rec func(t types.Type)
	lim := tb.BVU(64, 1<<40)
	markLow := objBound.Op == "bv" && objBound.Val.Cmp(big.NewInt(freshBase)) == 0
	mark := func(t *Term) {
		if markLow && !tb.isLow(t) {
			// the solver must know the bound too: emit it before the term builder starts folding it away
			if t.hasBV {
				return
			}
			u.axioms = append(u.axioms, tb.rawUlt(t, objBound)) // unconditional: kept across probe roll-backs
			tb.MarkLow(t)
		}
	}
	rec = func(t types.Type) {
		switch ut := t.Underlying().(type) {
		case *types.Basic:
			if ut.Kind() == types.UnsafePointer {
				mark(slots[i])
				out = append(out, tb.Ult(slots[i], objBound), tb.Ult(slots[i+1], lim))
				i += 2
			} else if ut.Kind() == types.Complex128 || ut.Kind() == types.Complex64 {
				i += 2
			} else {
				i++
			}
		case *types.Pointer:
			mark(slots[i])
			if !slots[i].hasBV && !u.W.inSomeGlobal(ut.Elem()) {
				tb.MarkNoGlob(slots[i])
			}
			out = append(out, tb.Ult(slots[i], objBound), tb.Ult(slots[i+1], lim),
				tb.Implies(tb.Eq(slots[i], tb.BV(32, 0)), tb.Eq(slots[i+1], tb.BV(64, 0)))) // nil is (0,0)
			out = append(out, u.registerPtr(ut.Elem(), slots[i], slots[i+1])...)
			i += 2
		case *types.Slice:
			mark(slots[i])
			if !slots[i].hasBV && !u.W.inSomeGlobal(ut.Elem()) {
				tb.MarkNoGlob(slots[i])
			}
			if !slots[i+3].hasBV && !slots[i+3].IsConst() {
				u.sliceCaps = append(u.sliceCaps, slots[i+3])
			}
			out = append(out, tb.Ult(slots[i], objBound), tb.Ult(slots[i+1], lim),
				tb.Ule(slots[i+2], slots[i+3]), tb.Ule(slots[i+3], lim),
				tb.Implies(tb.Eq(slots[i], tb.BV(32, 0)), tb.Eq(slots[i+3], tb.BV(64, 0))))
			i += 4
		case *types.Map, *types.Chan:
			mark(slots[i])
			out = append(out, tb.Ult(slots[i], objBound))
			i++
		case *types.Signature:
			mark(slots[i+1])
			out = append(out, tb.Ult(slots[i+1], objBound))
			i += 2
		case *types.Interface:
			mark(slots[i+1])
			out = append(out, tb.Ult(slots[i+1], objBound), tb.Ult(slots[i+2], lim),
				// the nil interface is (0,0,0)
				tb.Implies(tb.Eq(slots[i], tb.BV(32, 0)), tb.And(tb.Eq(slots[i+1], tb.BV(32, 0)), tb.Eq(slots[i+2], tb.BV(64, 0)))))
			i += 3
		case *types.Struct:
			for k := 0; k < ut.NumFields(); k++ {
				rec(ut.Field(k).Type())
			}
		case *types.Array:
			for k := int64(0); k < ut.Len(); k++ {
				rec(ut.Elem())
			}
		case *types.Tuple:
			for k := 0; k < ut.Len(); k++ {
				rec(ut.At(k).Type())
			}
		default:
			panic(unsupported(fmt.Sprintf("validFacts %T", ut)))
		}
	}
	rec(t)
	return out
}

func (u *Unit) freshValue(prefix string, t types.Type) []*Term {
	ss := u.W.layout.Slots(t)
	out := make([]*Term, len(ss))
	for i, s := range ss {
		out[i] = u.fresh(prefix, s)
	}
	return out
}

// string length is a valid Go length
func (u *Unit) strFacts(slots []*Term) {
	for _, s := range slots {
		if s.Sort.K == KStr && s.Op == "sym" {
			u.addFact(u.tb.Ule(u.slen(s), u.tb.BVU(64, 1<<40)))
		}
	}
}

// ------------------------------------------------------------------ CFG helpers

type loopInfo struct {
	header *ssa.BasicBlock
	body   map[*ssa.BasicBlock]bool
	ord    int // ordinal in source order (1-based)
}

func isBackEdge(from, to *ssa.BasicBlock) bool { return to.Dominates(from) }

func findLoops(fn *ssa.Function) ([]*loopInfo, error) {
	var loops []*loopInfo
	byHeader := map[*ssa.BasicBlock]*loopInfo{}
	for _, b := range fn.Blocks {
		for _, s := range b.Succs {
			if isBackEdge(b, s) {
				li := byHeader[s]
				if li == nil {
					li = &loopInfo{header: s, body: map[*ssa.BasicBlock]bool{s: true}}
					byHeader[s] = li
					loops = append(loops, li)
				}
				// natural loop: nodes that reach b without passing through s
				var stack []*ssa.BasicBlock
				if !li.body[b] {
					li.body[b] = true
					stack = append(stack, b)
				}
				for len(stack) > 0 {
					x := stack[len(stack)-1]
					stack = stack[:len(stack)-1]
					for _, p := range x.Preds {
						if !li.body[p] {
							li.body[p] = true
							stack = append(stack, p)
						}
					}
				}
			}
		}
	}
	// reducibility check: every retreating edge in a DFS must be a back edge
	state := map[*ssa.BasicBlock]int{}
	var irreducible bool
	var dfs func(b *ssa.BasicBlock)
	dfs = func(b *ssa.BasicBlock) {
		state[b] = 1
		for _, s := range b.Succs {
			if state[s] == 1 && !isBackEdge(b, s) {
				irreducible = true
			}
			if state[s] == 0 {
				dfs(s)
			}
		}
		state[b] = 2
	}
	if len(fn.Blocks) > 0 {
		dfs(fn.Blocks[0])
	}
	if irreducible {
		return nil, unsupported("irreducible control flow in " + fn.String())
	}
	// ordinal by source position of the header (falls back to block index)
	sort.SliceStable(loops, func(i, j int) bool {
		pi, pj := blockPos(loops[i].header), blockPos(loops[j].header)
		if pi != pj {
			return pi < pj
		}
		return loops[i].header.Index < loops[j].header.Index
	})
	for i, l := range loops {
		l.ord = i + 1
	}
	return loops, nil
}

func blockPos(b *ssa.BasicBlock) token.Pos {
	// position of the loop = smallest valid position among the header's instructions
	// and its forward predecessors' terminators
	var best token.Pos
	upd := func(p token.Pos) {
		if p.IsValid() && (best == 0 || p < best) {
			best = p
		}
	}
	for _, in := range b.Instrs {
		upd(in.Pos())
		if v, ok := in.(ssa.Value); ok {
			_ = v
		}
	}
	if best == 0 {
		for _, s := range b.Succs {
			for _, in := range s.Instrs {
				upd(in.Pos())
			}
		}
	}
	return best
}

// topological order ignoring back edges
func topoOrder(fn *ssa.Function) []*ssa.BasicBlock {
	var order []*ssa.BasicBlock
	seen := map[*ssa.BasicBlock]bool{}
	var dfs func(b *ssa.BasicBlock)
	dfs = func(b *ssa.BasicBlock) {
		seen[b] = true
		for _, s := range b.Succs {
			if !seen[s] && !isBackEdge(b, s) {
				dfs(s)
			}
		}
		order = append(order, b)
	}
	dfs(fn.Blocks[0])
	for i, j := 0, len(order)-1; i < j; i, j = i+1, j-1 {
		order[i], order[j] = order[j], order[i]
	}
	return order
}

// orFactor builds a disjunction of path conditions, factoring common conjuncts
// (so that the join of "r ∧ c" and "r ∧ ¬c" is again r).
func (tb *TB) orFactor(cs []*Term) *Term {
	if len(cs) == 0 {
		return tb.False()
	}
	acc := cs[0]
	for _, c := range cs[1:] {
		acc = tb.or2(acc, c)
	}
	return acc
}

func conjuncts(t *Term) []*Term {
	if t.Op == "and" {
		return t.Args
	}
	if t.IsTrue() {
		return nil
	}
	return []*Term{t}
}

func (tb *TB) or2(a, b *Term) *Term {
	la, lb := conjuncts(a), conjuncts(b)
	inb := map[int]bool{}
	for _, x := range lb {
		inb[x.id] = true
	}
	var common, ra, rb []*Term
	inc := map[int]bool{}
	for _, x := range la {
		if inb[x.id] {
			common = append(common, x)
			inc[x.id] = true
		} else {
			ra = append(ra, x)
		}
	}
	for _, x := range lb {
		if !inc[x.id] {
			rb = append(rb, x)
		}
	}
	if len(common) == 0 {
		return tb.Or(a, b)
	}
	return tb.And(append(common, tb.or2(tb.And(ra...), tb.And(rb...)))...)
}

// ------------------------------------------------------------------ running a function body

type loopStub struct {
	inv *Contract // kind "loop"
}

// run executes fn symbolically from the given entry state; returns merged
// result slots, final memory and the condition under which the function returns.
func (f *Frame) run(entry BState) (res []*Term, out BState) {
	fn := f.fn
	if len(fn.Blocks) == 0 {
		panic(unsupported("function without body: " + fn.String()))
	}
	loops, err := findLoops(fn)
	if err != nil {
		panic(err)
	}
	hdr := map[*ssa.BasicBlock]*loopInfo{}
	for _, l := range loops {
		hdr[l.header] = l
	}
	f.edge = map[[2]int]BState{}
	order := topoOrder(fn)
	tb := f.tb()
	f.hdr = hdr
	f.order = order
	f.entry = entry
	f.process(order, nil, nil)
	// merge returns
	if len(f.rets) == 0 {
		return nil, BState{reach: tb.False(), mem: entry.mem}
	}
	var conds []*Term
	var states []BState
	for _, r := range f.rets {
		conds = append(conds, r.reach)
		states = append(states, BState{reach: r.reach, mem: r.mem})
	}
	out.reach = tb.orFactor(conds)
	out.mem = f.mergeMem(conds, states)
	res = f.rets[len(f.rets)-1].vals
	for k := len(f.rets) - 2; k >= 0; k-- {
		n := make([]*Term, len(res))
		for s := range res {
			n[s] = tb.Ite(conds[k], f.rets[k].vals[s], res[s])
		}
		res = n
	}
	return res, out
}

// process executes the blocks of order (restricted to only, if non-nil). When start is
// non-nil it is the first block and runs from f.cur as it is (loop probing).
func (f *Frame) process(order []*ssa.BasicBlock, only map[*ssa.BasicBlock]bool, start *ssa.BasicBlock) {
	tb := f.tb()
	hdr := f.hdr
	for _, b := range order {
		if only != nil && !only[b] {
			continue
		}
		var st BState
		li := hdr[b]
		if b == start {
			f.execBlock(b, hdr)
			continue
		}
		if b.Index == 0 {
			st = f.entry
		} else {
			var conds []*Term
			var states []BState
			var preds []*ssa.BasicBlock
			for _, p := range b.Preds {
				if isBackEdge(p, b) {
					continue
				}
				es, ok := f.edge[[2]int{p.Index, b.Index}]
				if !ok {
					continue // unreachable predecessor (never processed)
				}
				conds = append(conds, es.reach)
				states = append(states, es)
				preds = append(preds, p)
			}
			if len(conds) == 0 {
				continue
			}
			st.reach = tb.orFactor(conds)
			st.mem = f.mergeMem(conds, states)
			// phis
			for _, in := range b.Instrs {
				phi, ok := in.(*ssa.Phi)
				if !ok {
					break
				}
				var acc []*Term
				for k := len(preds) - 1; k >= 0; k-- {
					idx := predIndex(b, preds[k])
					v := f.valOrZero(phi.Edges[idx], preds[k])
					if acc == nil {
						acc = v
					} else {
						n := make([]*Term, len(v))
						for s := range v {
							n[s] = tb.Ite(conds[k], v[s], acc[s])
						}
						acc = n
					}
				}
				f.set(phi, acc)
			}
		}
		if st.reach.IsFalse() {
			continue
		}
		f.cur = st
		if li != nil {
			if f.tryUnroll(li, b) {
				continue
			}
			f.enterLoop(li, b)
		}
		f.execBlock(b, hdr)
	}
}

func predIndex(b, p *ssa.BasicBlock) int {
	for i, x := range b.Preds {
		if x == p {
			return i
		}
	}
	panic("pred not found")
}

func (f *Frame) valOrZero(v ssa.Value, from *ssa.BasicBlock) []*Term {
	return f.val(v)
}

func (f *Frame) mergeMem(conds []*Term, states []BState) MemState {
	if len(states) == 1 {
		return states[0].mem
	}
	out := states[len(states)-1].mem.clone()
	for k := len(states) - 2; k >= 0; k-- {
		for key, m := range states[k].mem.m {
			o := out.m[key]
			if o == nil {
				o = m
			}
			out.m[key] = f.u.mc.Ite(conds[k], m, o)
		}
		// map state: a key absent from one side denotes the unit's base node
		keys := map[string]Sort{}
		for key, m := range states[k].mem.mp {
			keys[key] = m.sort
		}
		for key, m := range out.mp {
			keys[key] = m.sort
		}
		for key, s := range keys {
			a := f.mapNode(states[k].mem, key, s)
			b := f.mapNode(out, key, s)
			if a == b {
				out.mp[key] = a
				continue
			}
			if conds[k].IsTrue() {
				out.mp[key] = a
			} else if conds[k].IsFalse() {
				out.mp[key] = b
			} else {
				out.mp[key] = f.u.mc.mnode(&MapNode{kind: mpIte, sort: s, c: conds[k], a: a, b: b})
			}
		}
	}
	return out
}

func (f *Frame) memOf(s Sort) *MemNode {
	m := f.cur.mem.m[s.Key()]
	if m == nil {
		panic("no memory for sort " + s.String())
	}
	return m
}

func (f *Frame) setMem(s Sort, m *MemNode) {
	f.cur.mem = f.cur.mem.clone()
	f.cur.mem.m[s.Key()] = m
}

// execBlock runs the instructions of b and records the outgoing edge states.
func (f *Frame) execBlock(b *ssa.BasicBlock, hdr map[*ssa.BasicBlock]*loopInfo) {
	tb := f.tb()
	f.curBlk = b
	for _, in := range b.Instrs {
		if _, ok := in.(*ssa.Phi); ok {
			continue
		}
		switch x := in.(type) {
		case *ssa.If:
			c := f.val(x.Cond)[0]
			if !f.spec && !c.IsConst() && !c.hasBV {
				g := c
				if g.Op == "not" {
					g = g.Args[0]
				}
				if !f.u.branchSeen[g.id] {
					if f.u.branchSeen == nil {
						f.u.branchSeen = map[int]bool{}
					}
					f.u.branchSeen[g.id] = true
					f.u.branchConds = append(f.u.branchConds, g)
				}
			}
			f.out(b, b.Succs[0], tb.And(f.cur.reach, c), hdr)
			f.out(b, b.Succs[1], tb.And(f.cur.reach, tb.Not(c)), hdr)
			return
		case *ssa.Jump:
			f.out(b, b.Succs[0], f.cur.reach, hdr)
			return
		case *ssa.Return:
			var vals []*Term
			for _, r := range x.Results {
				vals = append(vals, f.val(r)...)
			}
			f.rets = append(f.rets, retRec{reach: f.cur.reach, vals: vals, mem: f.cur.mem})
			return
		case *ssa.Panic:
			if !f.spec && !f.u.explicitPanicOK {
				f.u.addObl("nopanic:panic", f.anchorFor("panic"), f.cur.reach, tb.False(), f.pos(x.Pos()), "explicit panic reachable")
			}
			return
		default:
			f.instr(in)
			if f.cur.reach.IsFalse() {
				return
			}
		}
	}
}

func (f *Frame) anchorFor(what string) string {
	if f.anchor == "" {
		return what
	}
	return f.anchor + "/" + what
}

// out records the state flowing along edge b->s; back edges become inv-step obligations.
func (f *Frame) out(b, s *ssa.BasicBlock, reach *Term, hdr map[*ssa.BasicBlock]*loopInfo) {
	if reach.IsFalse() {
		return
	}
	f.recordEdge(b, s, BState{reach: reach, mem: f.cur.mem})
}

func unitShortName(fn *ssa.Function) string {
	s := fn.String()
	// strip module path
	s = strings.ReplaceAll(s, "github.com/els0r/goProbe/v4/", "")
	return s
}
