package main

import (
	"fmt"
	"go/token"
	"go/types"
	"os"
	"path/filepath"
	"sort"
	"strings"
	"sync"

	"golang.org/x/tools/go/packages"
	"golang.org/x/tools/go/types/typeutil"
	"golang.org/x/tools/go/ssa"
	"golang.org/x/tools/go/ssa/ssautil"
)

const modPath = "github.com/els0r/goProbe/v4"

type BuildConfig struct {
	Name string
	Tags []string
	Cgo  bool
}

type World struct {
	repo      string
	cfg       BuildConfig
	fset      *token.FileSet
	prog      *ssa.Program
	pkgs      []*packages.Package
	spkgs     map[string]*ssa.Package // by import path
	layout    *Layout
	contracts map[string]*Contract // by pkgpath + "::" + key
	all       []*Contract
	stubs     map[*Contract]*ssa.Function
	globals   map[*ssa.Global]int64
	globTypes     typeutil.Map // types that occur in some package-level variable
	globTypesOnce sync.Once
	privAlloc     map[*ssa.Alloc]bool
	unfolds       map[string][][2]*ssa.Function // interface type -> (verifX, verifXDef) pairs
	funcs     map[*ssa.Function]int64
	funcByID  map[int64]*ssa.Function
	typeTags  map[string]int64
	tagTypes  map[int64]types.Type
	loadErrs  []string
	genSrc    map[string]string // dir -> generated stub source
	debugRefs map[*ssa.Function]map[string][]*ssa.DebugRef
	globalWritten map[*ssa.Global]bool
}

func pkgPathOfDir(repo, dir string) string {
	rel, _ := filepath.Rel(repo, dir)
	if strings.HasPrefix(rel, "plugins/contrib") {
		return modPath + "/" + rel
	}
	if rel == "." {
		return modPath
	}
	return modPath + "/" + filepath.ToSlash(rel)
}

// scanContracts finds every contracts_verif.go under repo.
func scanContracts(repo string) ([]string, error) {
	var out []string
	err := filepath.Walk(repo, func(p string, info os.FileInfo, err error) error {
		if err != nil {
			return nil
		}
		if info.IsDir() {
			n := info.Name()
			if n == ".git" || n == "frontend" || n == "node_modules" || n == "charts" {
				return filepath.SkipDir
			}
			return nil
		}
		// contracts_verif.go, or contracts_<variant>_verif.go for files with further build constraints
		if n := info.Name(); n == "contracts_verif.go" || strings.HasPrefix(n, "contracts_") && strings.HasSuffix(n, "_verif.go") {
			out = append(out, p)
		}
		return nil
	})
	sort.Strings(out)
	return out, err
}

// LoadWorld parses the contract files of dirs (all if nil filter), generates the
// stub overlays and loads the packages with SSA.
func LoadWorld(repo string, cfg BuildConfig, contractFiles []string, extraPkgs []string) (*World, error) {
	w := &World{repo: repo, cfg: cfg, layout: NewLayout(), contracts: map[string]*Contract{}, stubs: map[*Contract]*ssa.Function{},
		globals: map[*ssa.Global]int64{}, funcs: map[*ssa.Function]int64{}, funcByID: map[int64]*ssa.Function{},
		typeTags: map[string]int64{}, tagTypes: map[int64]types.Type{}, spkgs: map[string]*ssa.Package{}, genSrc: map[string]string{},
		debugRefs: map[*ssa.Function]map[string][]*ssa.DebugRef{}}
	tags := map[string]bool{"verif": true, "linux": true, "amd64": true, "unix": true, "gc": true}
	for _, t := range cfg.Tags {
		tags[t] = true
	}
	if cfg.Cgo {
		tags["cgo"] = true
	}
	for i := 1; i <= 25; i++ {
		tags[fmt.Sprintf("go1.%d", i)] = true
	}
	overlay := map[string][]byte{}
	var patterns []string
	src := map[string][]byte{}
	byDir := map[string][]*Contract{}
	var dirs []string
	for _, cf := range contractFiles {
		if !buildTagsMatch(cf, tags) {
			continue // a contract file for another build configuration
		}
		cs, _, err := parseContractFile(cf)
		if err != nil {
			return nil, err
		}
		d := filepath.Dir(cf)
		if _, ok := byDir[d]; !ok {
			dirs = append(dirs, d)
		}
		byDir[d] = append(byDir[d], cs...)
	}
	for _, d := range dirs {
		ps, err := loadPkgSyntax(d, tags)
		if err != nil {
			return nil, err
		}
		for _, c := range byDir[d] {
			if err := c.resolveSignature(ps, src); err != nil {
				return nil, err
			}
			c.PkgName = ps.name
		}
		text, err := genStubFile(ps, byDir[d])
		if err != nil {
			return nil, err
		}
		overlay[filepath.Join(d, "zz_verif_gen.go")] = []byte(text)
		w.genSrc[d] = text
		pp := pkgPathOfDir(repo, d)
		patterns = append(patterns, pp)
		for _, c := range byDir[d] {
			w.contracts[pp+"::"+c.Key()] = c
			w.all = append(w.all, c)
		}
	}
	patterns = append(patterns, extraPkgs...)
	var env []string
	for _, e := range os.Environ() {
		if strings.HasPrefix(e, "GOFLAGS=") || strings.HasPrefix(e, "CGO_ENABLED=") {
			continue
		}
		env = append(env, e)
	}
	if cfg.Cgo {
		env = append(env, "CGO_ENABLED=1")
	} else {
		env = append(env, "CGO_ENABLED=0")
	}
	alltags := append([]string{"verif"}, cfg.Tags...)
	pc := &packages.Config{
		Mode:       packages.LoadAllSyntax,
		Dir:        repo,
		BuildFlags: []string{"-tags=" + strings.Join(alltags, ",")},
		Env:        env,
		Overlay:    overlay,
		Fset:       token.NewFileSet(),
	}
	pkgs, err := packages.Load(pc, patterns...)
	if err != nil {
		return nil, err
	}
	w.fset = pc.Fset
	w.pkgs = pkgs
	packages.Visit(pkgs, nil, func(p *packages.Package) {
		if !strings.HasPrefix(p.PkgPath, modPath) {
			return
		}
		for _, e := range p.Errors {
			w.loadErrs = append(w.loadErrs, e.Error())
		}
	})
	if len(w.loadErrs) > 0 {
		return w, fmt.Errorf("load errors:\n  %s", strings.Join(w.loadErrs, "\n  "))
	}
	prog, _ := ssautil.AllPackages(pkgs, ssa.GlobalDebug|ssa.BareInits|ssa.InstantiateGenerics)
	w.prog = prog
	for _, sp := range prog.AllPackages() {
		w.spkgs[sp.Pkg.Path()] = sp
	}
	// build only what we need lazily: Build() of the target packages and their module-local deps
	for _, sp := range prog.AllPackages() {
		sp.Build()
	}
	// resolve stubs
	for _, c := range w.all {
		if c.Kind == "spec" {
			continue
		}
		if c.Kind == "model" {
			pp := pkgPathOfDir(repo, c.PkgDir)
			if sp := w.spkgs[pp]; sp == nil || sp.Func(c.StubName) == nil {
				return w, fmt.Errorf("model function %s not found in %s", c.StubName, pp)
			} else {
				w.stubs[c] = sp.Func(c.StubName)
			}
			continue
		}
		pp := pkgPathOfDir(repo, c.PkgDir)
		sp := w.spkgs[pp]
		if sp == nil {
			return w, fmt.Errorf("package %s not loaded", pp)
		}
		fn := sp.Func(c.StubName)
		if fn == nil {
			return w, fmt.Errorf("stub %s not found in %s", c.StubName, pp)
		}
		w.stubs[c] = fn
	}
	return w, nil
}

func (w *World) globalID(g *ssa.Global) int64 {
	if id, ok := w.globals[g]; ok {
		return id
	}
	id := int64(len(w.globals) + 16)
	w.globals[g] = id
	return id
}

func (w *World) funcID(f *ssa.Function) int64 {
	if id, ok := w.funcs[f]; ok {
		return id
	}
	id := int64(len(w.funcs) + 1)
	w.funcs[f] = id
	w.funcByID[id] = f
	return id
}

func (w *World) typeTag(t types.Type) int64 {
	k := types.TypeString(t, nil)
	if id, ok := w.typeTags[k]; ok {
		return id
	}
	id := int64(len(w.typeTags) + 1)
	w.typeTags[k] = id
	w.tagTypes[id] = t
	return id
}

// funcKey returns the contract key of an SSA function relative to its package:
// "Name", "(*T).Name", "(T).Name", "Outer$1".
func funcKey(fn *ssa.Function) string {
	if fn.Parent() != nil {
		// anonymous: go/ssa names them Outer$N
		root := fn
		for root.Parent() != nil {
			root = root.Parent()
		}
		return strings.Replace(fn.Name(), root.Name(), funcKey(root), 1)
	}
	if recv := fn.Signature.Recv(); recv != nil {
		t := recv.Type()
		star := ""
		if p, ok := t.(*types.Pointer); ok {
			t = p.Elem()
			star = "*"
		}
		name := "?"
		if n, ok := t.(*types.Named); ok {
			name = n.Obj().Name()
		}
		return "(" + star + name + ")." + fn.Name()
	}
	return fn.Name()
}

func fnPkgPath(fn *ssa.Function) string {
	root := fn
	for root.Parent() != nil {
		root = root.Parent()
	}
	if o := root.Origin(); o != nil {
		root = o
	}
	if root.Pkg != nil {
		return root.Pkg.Pkg.Path()
	}
	if root.Object() != nil && root.Object().Pkg() != nil {
		return root.Object().Pkg().Path()
	}
	if recv := root.Signature.Recv(); recv != nil {
		t := recv.Type()
		if p, ok := t.(*types.Pointer); ok {
			t = p.Elem()
		}
		if n, ok := t.(*types.Named); ok && n.Obj().Pkg() != nil {
			return n.Obj().Pkg().Path()
		}
	}
	return ""
}

// contractFor looks up the contract (func/closure/extern) attached to fn.
func (w *World) contractFor(fn *ssa.Function) *Contract {
	pp := fnPkgPath(fn)
	key := funcKey(fn)
	if strings.HasPrefix(pp, modPath) {
		if c, ok := w.contracts[pp+"::"+key]; ok && (c.Kind == "func" || c.Kind == "closure") {
			return c
		}
		// cgo stubs (_Cfunc_*) have generated bodies that call into C; a function of another
		// package of the module may be given an assumed contract instead of being expanded
		// (listed as trusted wherever it is used)
		qm := pp + "." + key
		if strings.HasPrefix(key, "(") {
			// (*T).M -> (*pkg.T).M
			i := strings.Index(key, ")")
			recv := key[1:i]
			star := ""
			if strings.HasPrefix(recv, "*") {
				star = "*"
				recv = recv[1:]
			}
			qm = "(" + star + pp + "." + recv + ")" + key[i+1:]
		}
		for _, c := range w.all {
			if (c.Kind == "extern" || c.Kind == "model") && c.Target == qm {
				return c
			}
		}
		return nil
	}
	// extern: searched in every loaded contract set by qualified name
	q := pp + "." + key
	if strings.HasPrefix(key, "(") {
		// (*T).M -> (*pkg.T).M
		i := strings.Index(key, ")")
		recv := key[1:i]
		star := ""
		if strings.HasPrefix(recv, "*") {
			star = "*"
			recv = recv[1:]
		}
		q = "(" + star + pp + "." + recv + ")" + key[i+1:]
	}
	for _, c := range w.all {
		if (c.Kind == "extern" || c.Kind == "model") && c.Target == q {
			return c
		}
	}
	// instance of a generic function: a contract on the generic's name applies when its stub
	// has exactly the parameter and result types of this instance
	if o := fn.Origin(); o != nil && fn.Signature.Recv() == nil {
		qo := pp + "." + o.Name()
		for _, c := range w.all {
			if c.Kind != "extern" || c.Target != qo {
				continue
			}
			stub := w.stubs[c]
			if stub == nil {
				continue
			}
			np, nr := fn.Signature.Params().Len(), fn.Signature.Results().Len()
			if len(stub.Params) != np+nr {
				continue
			}
			same := true
			for i := 0; i < np && same; i++ {
				same = types.Identical(stub.Params[i].Type(), fn.Signature.Params().At(i).Type())
			}
			for i := 0; i < nr && same; i++ {
				same = types.Identical(stub.Params[np+i].Type(), fn.Signature.Results().At(i).Type())
			}
			if same {
				return c
			}
		}
	}
	if os.Getenv("GPV_DEBUGEXT") != "" {
		fmt.Fprintln(os.Stderr, "no extern contract for", q)
	}
	return nil
}

func (w *World) loopContract(fn *ssa.Function, ord int) *Contract {
	pp := fnPkgPath(fn)
	return w.contracts[pp+"::"+fmt.Sprintf("%s#loop%d", funcKey(fn), ord)]
}

// findFunc resolves a contract target to the SSA function.
func (w *World) findFunc(pkgPath, key string) *ssa.Function {
	sp := w.spkgs[pkgPath]
	if sp == nil {
		return nil
	}
	base := key
	rest := ""
	if i := strings.Index(key, "$"); i >= 0 {
		base, rest = key[:i], key[i:]
	}
	var fn *ssa.Function
	if strings.HasPrefix(base, "(") {
		i := strings.Index(base, ").")
		recv, name := base[1:i], base[i+2:]
		ptr := strings.HasPrefix(recv, "*")
		recv = strings.TrimPrefix(recv, "*")
		obj := sp.Pkg.Scope().Lookup(recv)
		if obj == nil {
			return nil
		}
		var t types.Type = obj.Type()
		if ptr {
			t = types.NewPointer(t)
		}
		ms := w.prog.MethodSets.MethodSet(t)
		for k := 0; k < ms.Len(); k++ {
			if ms.At(k).Obj().Name() == name {
				fn = w.prog.MethodValue(ms.At(k))
			}
		}
	} else {
		fn = sp.Func(base)
	}
	if fn == nil || rest == "" {
		return fn
	}
	want := fn.Name() + rest
	var found *ssa.Function
	var walk func(f *ssa.Function)
	walk = func(f *ssa.Function) {
		for _, a := range f.AnonFuncs {
			if a.Name() == want {
				found = a
			}
			walk(a)
		}
	}
	walk(fn)
	return found
}

func (w *World) debugRefsOf(fn *ssa.Function) map[string][]*ssa.DebugRef {
	if m, ok := w.debugRefs[fn]; ok {
		return m
	}
	m := map[string][]*ssa.DebugRef{}
	for _, b := range fn.Blocks {
		for _, in := range b.Instrs {
			if d, ok := in.(*ssa.DebugRef); ok {
				if o := d.Object(); o != nil {
					m[o.Name()] = append(m[o.Name()], d)
				}
			}
		}
	}
	w.debugRefs[fn] = m
	return m
}

// unfoldsFor: the (ghost function, definition) pairs declared for interface type t.
func (w *World) unfoldsFor(t types.Type) [][2]*ssa.Function {
	if w.unfolds == nil {
		w.unfolds = map[string][][2]*ssa.Function{}
		for path, sp := range w.spkgs {
			if !strings.HasPrefix(path, modPath) {
				continue
			}
			for name, m := range sp.Members {
				def, ok := m.(*ssa.Function)
				if !ok || !strings.HasPrefix(name, "verif") || !strings.HasSuffix(name, "Def") || len(def.Blocks) == 0 || len(def.Params) != 1 {
					continue
				}
				uf := sp.Func(strings.TrimSuffix(name, "Def"))
				if uf == nil || len(uf.Blocks) != 0 || len(uf.Params) != 1 || !types.Identical(uf.Params[0].Type(), def.Params[0].Type()) {
					continue
				}
				k := types.TypeString(def.Params[0].Type(), nil)
				w.unfolds[k] = append(w.unfolds[k], [2]*ssa.Function{uf, def})
			}
		}
	}
	return w.unfolds[types.TypeString(t, nil)]
}
