package main

// Memory model. An address is a pair (obj : BV32, off : BV64) — an allocation id
// and a slot index inside it (CompCert style). Every Go type is flattened into
// primitive slots (layout.go); there is one memory per slot sort. A memory is a
// persistent chain of layers over an uninterpreted base function; reads are
// expanded on the Go side into ite-terms (no SMT array theory, no quantifiers).

import (
	"fmt"
)

type memKind int

const (
	mBase  memKind = iota // uninterpreted function name(obj, off)
	mStore                // single slot written
	mIte                  // control-flow merge
	mHavoc                // slots [lo,hi) of obj replaced by fresh base
	mCopy                 // slots [doff, doff+n) of dobj replaced by src[sobj, soff + (off-doff)]
	mHavocObjs            // every slot whose object satisfies pred is replaced (used for call/loop havoc of "everything old")
	mZero                 // reads as the zero value (val)
	mStrBytes             // reads as sbyte(val, off): the bytes of a string
	mObjRange             // objects with lo <= obj <= hi read from src (used to keep stub-local objects across a memory switch)
)

func (mc *MemCtx) ObjRange(prev *MemNode, lo, hi *Term, src *MemNode) *MemNode {
	return mc.node(&MemNode{kind: mObjRange, sort: prev.sort, prev: prev, obj: lo, limit: hi, src: src})
}

type MemNode struct {
	kind memKind
	id   int
	sort Sort
	// base
	name string
	// store / havoc / copy
	prev     *MemNode
	obj, off *Term // store address; havoc: obj, off=lo
	hi       *Term // havoc: hi (exclusive); copy: n
	val      *Term
	fresh    *MemNode // havoc: fresh base
	// copy
	src        *MemNode
	sobj, soff *Term
	// ite
	c    *Term
	a, b *MemNode
	// havocObjs: objects with obj <u limit are replaced by fresh
	limit *Term
	// provenance for on-demand facts: which ObjSort bound holds for values read from a base
	objBound *Term
	// havocObjs: object ids (absolute) that are not affected
	except map[int64]bool
}

type MemState struct {
	m  map[string]*MemNode // by sort key
	mp map[string]*MapNode // map state by "<map type>#has" / "#v<i>" (absent = the unit's base)
}

func (ms MemState) clone() MemState {
	n := MemState{m: make(map[string]*MemNode, len(ms.m)), mp: make(map[string]*MapNode, len(ms.mp))}
	for k, v := range ms.m {
		n.m[k] = v
	}
	for k, v := range ms.mp {
		n.mp[k] = v
	}
	return n
}

type MemCtx struct {
	tb     *TB
	nid    int
	nbase  int
	selMem map[[3]int]*Term
	// facts produced on demand while reading base memories (validity of stored
	// pointers / slices); drained by the encoder
	onBaseRead func(base *MemNode, obj, off, val *Term)
	baseBounds map[string]*Term // base memory name -> every reference stored in it is an object id below this
}

func NewMemCtx(tb *TB) *MemCtx {
	return &MemCtx{tb: tb, selMem: map[[3]int]*Term{}}
}

func (mc *MemCtx) node(n *MemNode) *MemNode {
	mc.nid++
	n.id = mc.nid
	return n
}

func (mc *MemCtx) NewBase(prefix string, s Sort, objBound *Term) *MemNode {
	mc.nbase++
	n := mc.node(&MemNode{kind: mBase, sort: s, name: fmt.Sprintf("%s_%s_%d", prefix, s.Key(), mc.nbase), objBound: objBound})
	if objBound != nil {
		if mc.baseBounds == nil {
			mc.baseBounds = map[string]*Term{}
		}
		mc.baseBounds[n.name] = objBound
	}
	return n
}

func (mc *MemCtx) Store(prev *MemNode, obj, off, val *Term) *MemNode {
	if val.Sort != prev.sort {
		panic(fmt.Sprintf("store sort mismatch: mem %v val %v", prev.sort, val.Sort))
	}
	return mc.node(&MemNode{kind: mStore, sort: prev.sort, prev: prev, obj: obj, off: off, val: val})
}

func (mc *MemCtx) Ite(c *Term, a, b *MemNode) *MemNode {
	if a == b || c.IsTrue() {
		return a
	}
	if c.IsFalse() {
		return b
	}
	return mc.node(&MemNode{kind: mIte, sort: a.sort, c: c, a: a, b: b})
}

func (mc *MemCtx) HavocRange(prev *MemNode, obj, lo, hi *Term, fresh *MemNode) *MemNode {
	return mc.node(&MemNode{kind: mHavoc, sort: prev.sort, prev: prev, obj: obj, off: lo, hi: hi, fresh: fresh})
}

func (mc *MemCtx) Copy(prev *MemNode, dobj, doff, n *Term, src *MemNode, sobj, soff *Term) *MemNode {
	return mc.node(&MemNode{kind: mCopy, sort: prev.sort, prev: prev, obj: dobj, off: doff, hi: n, src: src, sobj: sobj, soff: soff})
}

func (mc *MemCtx) HavocObjs(prev *MemNode, limit *Term, fresh *MemNode) *MemNode {
	return mc.node(&MemNode{kind: mHavocObjs, sort: prev.sort, prev: prev, limit: limit, fresh: fresh})
}

// inRange: lo <=u off <u hi  (offsets are bounded far below 2^63 by the validity
// facts on every pointer, so there is no wrap-around)
func (mc *MemCtx) inRange(off, lo, hi *Term) *Term {
	tb := mc.tb
	// syntactic fast path when off, lo, hi share a base
	bo, co := tb.splitAdd(off)
	bl, cl := tb.splitAdd(lo)
	bh, ch := tb.splitAdd(hi)
	if bo == bl && bl == bh {
		// all three are base + small constants: compare constants as signed 64-bit
		s := func(x interface{ Int64() int64 }) int64 { return x.Int64() }
		_ = s
		a := tb.BVBig(64, co).Signed()
		l := tb.BVBig(64, cl).Signed()
		h := tb.BVBig(64, ch).Signed()
		return tb.Bool(l.Cmp(a) <= 0 && a.Cmp(h) < 0)
	}
	return tb.And(tb.Ule(lo, off), tb.Ult(off, hi))
}

func (mc *MemCtx) Sel(m *MemNode, obj, off *Term) *Term {
	key := [3]int{m.id, obj.id, off.id}
	if r, ok := mc.selMem[key]; ok {
		return r
	}
	tb := mc.tb
	var r *Term
	if off.Op == "ite" && iteOfSums(off) && m.kind != mBase && m.kind != mZero {
		// an offset that is one of two base+constant alternatives: read both (folds syntactically)
		r = tb.Ite(off.Args[0], mc.Sel(m, obj, off.Args[1]), mc.Sel(m, obj, off.Args[2]))
		mc.selMem[key] = r
		return r
	}
	switch m.kind {
	case mBase:
		r = tb.UF(m.name, m.sort, obj, off)
		if mc.onBaseRead != nil {
			mc.onBaseRead(m, obj, off, r)
		}
	case mStore:
		c := tb.And(tb.Eq(obj, m.obj), tb.Eq(off, m.off))
		if c.IsTrue() {
			r = m.val
		} else if c.IsFalse() {
			r = mc.Sel(m.prev, obj, off)
		} else {
			r = tb.Ite(c, m.val, mc.Sel(m.prev, obj, off))
		}
	case mIte:
		r = tb.Ite(m.c, mc.Sel(m.a, obj, off), mc.Sel(m.b, obj, off))
	case mHavoc:
		c := tb.And(tb.Eq(obj, m.obj), mc.inRange(off, m.off, m.hi))
		if c.IsTrue() {
			r = mc.Sel(m.fresh, obj, off)
		} else if c.IsFalse() {
			r = mc.Sel(m.prev, obj, off)
		} else {
			r = tb.Ite(c, mc.Sel(m.fresh, obj, off), mc.Sel(m.prev, obj, off))
		}
	case mCopy:
		end := tb.Add(m.off, m.hi)
		c := tb.And(tb.Eq(obj, m.obj), mc.inRange(off, m.off, end))
		if c.IsFalse() {
			r = mc.Sel(m.prev, obj, off)
		} else {
			so := tb.Add(m.soff, tb.Sub(off, m.off))
			v := mc.Sel(m.src, m.sobj, so)
			if c.IsTrue() {
				r = v
			} else {
				r = tb.Ite(c, v, mc.Sel(m.prev, obj, off))
			}
		}
	case mObjRange:
		c := tb.And(tb.Ule(m.obj, obj), tb.Ule(obj, m.limit))
		if m.obj == m.limit {
			c = tb.Eq(obj, m.obj) // a single object (a package-level variable)
		}
		if c.IsTrue() {
			r = mc.Sel(m.src, obj, off)
		} else if c.IsFalse() {
			r = mc.Sel(m.prev, obj, off)
		} else {
			r = tb.Ite(c, mc.Sel(m.src, obj, off), mc.Sel(m.prev, obj, off))
		}
	case mZero:
		r = m.val
	case mStrBytes:
		r = tb.UF("sbyte", BV8, m.val, off)
	case mHavocObjs:
		c := tb.Ult(obj, m.limit)
		// private (non-escaping) local variables of the active frames keep their content
		if len(m.except) > 0 && !c.IsFalse() {
			if obj.Op == "bv" {
				if m.except[obj.Val.Int64()] {
					c = tb.False()
				}
			} else if !tb.isLow(obj) {
				for id := range m.except {
					c = tb.And(c, tb.Not(tb.Eq(obj, tb.BV(32, id))))
				}
			}
		}
		if c.IsTrue() {
			r = mc.Sel(m.fresh, obj, off)
		} else if c.IsFalse() {
			r = mc.Sel(m.prev, obj, off)
		} else {
			r = tb.Ite(c, mc.Sel(m.fresh, obj, off), mc.Sel(m.prev, obj, off))
		}
	}
	mc.selMem[key] = r
	return r
}
