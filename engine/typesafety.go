package main

// Type safety of the Go heap, as facts. The memory model is untyped per slot sort:
// two pointers *T1 and *T2 could otherwise be made to overlap by the solver. In a
// memory-safe Go program two live struct pointers either refer to disjoint slot
// ranges, or to the same range (same type), or one type contains the other by
// value. For every pair of struct pointers that a unit materialises (inputs,
// values loaded from memory, call results) the corresponding fact is emitted.

import (
	"go/types"
)

type typedPtr struct {
	elem     types.Type
	obj, off *Term
}

func containsType(outer, inner types.Type, depth int) bool {
	if depth > 8 {
		return true // be conservative
	}
	if types.Identical(outer, inner) {
		return true
	}
	switch u := outer.Underlying().(type) {
	case *types.Struct:
		for i := 0; i < u.NumFields(); i++ {
			if containsType(u.Field(i).Type(), inner, depth+1) {
				return true
			}
		}
	case *types.Array:
		return containsType(u.Elem(), inner, depth+1)
	}
	return false
}

func (u *Unit) registerPtr(elem types.Type, obj, off *Term) []*Term {
	switch elem.Underlying().(type) {
	case *types.Struct, *types.Slice, *types.Array:
		// pointers to structs, to slice variables (*[]T) and to arrays
	default:
		return nil
	}
	return u.registerTyped(elem, obj, off)
}

// registerTyped: (obj, off) is the address of a value of type elem (any type with references or
// structure: also a pointer-typed slice element).
func (u *Unit) registerTyped(elem types.Type, obj, off *Term) []*Term {
	if obj.hasBV || off.hasBV {
		return nil
	}
	if obj.IsConst() {
		return nil // a fresh allocation: distinct by construction
	}
	key := [2]int{obj.id, off.id}
	if u.ptrSeen == nil {
		u.ptrSeen = map[[2]int]bool{}
	}
	if u.ptrSeen[key] {
		return nil
	}
	u.ptrSeen[key] = true
	tb := u.tb
	L := u.W.layout
	var out []*Term
	n1 := tb.BV(64, L.Size(elem))
	if L.Size(elem) == 0 {
		return nil
	}
	zero := tb.BV(32, 0)
	for _, q := range u.ptrs {
		if q.obj == obj && q.off == off {
			continue
		}
		same := types.Identical(q.elem, elem)
		if !same && (containsType(q.elem, elem, 0) || containsType(elem, q.elem, 0)) {
			continue
		}
		n2 := tb.BV(64, L.Size(q.elem))
		disj := tb.Or(tb.Not(tb.Eq(obj, q.obj)), tb.Ule(tb.Add(off, n1), q.off), tb.Ule(tb.Add(q.off, n2), off))
		alt := tb.Or(tb.Eq(obj, zero), tb.Eq(q.obj, zero), disj)
		if same {
			alt = tb.Or(alt, tb.And(tb.Eq(obj, q.obj), tb.Eq(off, q.off)))
		}
		out = append(out, alt)
	}
	// local variables of unrelated type allocated so far (concrete object ids)
	for _, q := range u.allocs {
		if containsType(q.elem, elem, 0) || containsType(elem, q.elem, 0) {
			continue
		}
		out = append(out, tb.Not(tb.Eq(obj, q.obj)))
	}
	u.ptrs = append(u.ptrs, typedPtr{elem, obj, off})
	return out
}
