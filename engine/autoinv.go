package main

// Automatic index invariants (Houdini over a fixed template set). For every loop the
// encoder proposes bounds on the integer phi-nodes of the header:
//
//	init <= phi            (phi starts at a constant and only moves up)
//	phi <= n, phi+c <= n   (for every comparison "phi (+c) < n" in the loop with n loop-invariant)
//
// and keeps the largest subset that is inductive together with the written invariants.
// Inductiveness is decided by probing: the loop body is executed once symbolically with the
// candidates assumed at the head; candidates that cannot be re-established at a back edge
// are dropped and the probe is repeated. The kept candidates are then assumed at the head
// and re-proved as ordinary inv-entry / inv-step obligations, so nothing rests on the probe.

import (
	"context"
	"fmt"
	"go/token"
	"go/types"
	"os"
	"path/filepath"
	"time"

	"golang.org/x/tools/go/ssa"
)

type autoCand struct {
	phi  *ssa.Phi
	desc string
	pred func(f *Frame, phiVal *Term) *Term // nil result = not expressible in this state
}

type probeBack struct {
	from *ssa.BasicBlock
	st   BState
	vals map[*ssa.Phi]*Term
}

type probeRec struct {
	header *ssa.BasicBlock
	backs  []probeBack
}

func isIntType(t types.Type) bool {
	b, ok := t.Underlying().(*types.Basic)
	return ok && b.Info()&types.IsInteger != 0
}

func inLoop(li *loopInfo, v ssa.Value) bool {
	in, ok := v.(ssa.Instruction)
	if !ok {
		return false // parameters, constants, globals
	}
	return in.Block() != nil && li.body[in.Block()]
}

// loopCandidates builds the template instances for loop li; pre holds the phi values before the havoc.
func (f *Frame) loopCandidates(li *loopInfo, phis []*ssa.Phi, pre map[*ssa.Phi]*Term) []*autoCand {
	var out []*autoCand
	tb := f.tb()
	for _, phi := range phis {
		if !isIntType(phi.Type()) {
			continue
		}
		signed := isSigned(phi.Type())
		le := func(a, b *Term) *Term {
			if signed {
				return tb.Sle(a, b)
			}
			return tb.Ule(a, b)
		}
		phi := phi
		if p := pre[phi]; p != nil && p.IsConst() {
			pc := p
			out = append(out, &autoCand{phi: phi, desc: fmt.Sprintf("%s >= %s", phi.Comment, pc.Signed()), pred: func(f *Frame, v *Term) *Term { return le(pc, v) }})
		}
		// comparisons against loop-invariant values
		seen := map[string]bool{}
		for b := range li.body {
			for _, in := range b.Instrs {
				bo, ok := in.(*ssa.BinOp)
				if !ok {
					continue
				}
				switch bo.Op {
				case token.LSS, token.LEQ, token.GTR, token.GEQ, token.NEQ, token.EQL:
				default:
					continue
				}
				for _, pr := range [][2]ssa.Value{{bo.X, bo.Y}, {bo.Y, bo.X}} {
					x, n := pr[0], pr[1]
					if inLoop(li, n) {
						// len(s) / cap(s) of a loop-invariant s computed inside the loop is fine too
						if c, ok := n.(*ssa.Call); !ok || !isLenOfInvariant(li, c) {
							continue
						}
					}
					var off int64
					base := x
					if add, ok := x.(*ssa.BinOp); ok && add.Op == token.ADD {
						if c, ok := add.Y.(*ssa.Const); ok && c.Value != nil && isIntType(c.Type()) {
							base, off = add.X, c.Int64()
						}
					}
					if base != ssa.Value(phi) {
						continue
					}
					if !types.Identical(n.Type().Underlying(), phi.Type().Underlying()) {
						continue
					}
					for _, o := range []int64{0, off} {
						key := fmt.Sprintf("%s|%d", n.Name(), o)
						if seen[key] {
							continue
						}
						seen[key] = true
						nv, o := n, o
						out = append(out, &autoCand{phi: phi, desc: fmt.Sprintf("%s+%d <= %s", phi.Comment, o, n.Name()), pred: func(f *Frame, v *Term) *Term {
							nt, ok := f.vals[nv]
							if !ok {
								if _, isC := nv.(*ssa.Const); isC {
									nt = f.val(nv)
								} else if _, isP := nv.(*ssa.Parameter); isP {
									nt = f.val(nv)
								} else {
									return nil
								}
							}
							w := v.Sort.W
							// no wrap-around in phi+o
							sum := tb.Add(v, tb.BV(w, o))
							if o > 0 {
								return tb.And(le(v, sum), le(sum, nt[0]))
							}
							return le(sum, nt[0])
						}})
					}
				}
			}
		}
	}
	return out
}

func isLenOfInvariant(li *loopInfo, c *ssa.Call) bool {
	b, ok := c.Call.Value.(*ssa.Builtin)
	if !ok || (b.Name() != "len" && b.Name() != "cap") {
		return false
	}
	return !inLoop(li, c.Call.Args[0])
}

var quickN int

// quickUnsat decides a small query synchronously (z3-new, 3 s); anything but unsat counts as "no".
func (u *Unit) quickUnsat(asserts []*Term) bool {
	tb := u.tb
	for _, a := range asserts {
		if a.IsFalse() {
			return true
		}
	}
	asserts = pruneFacts(tb, asserts, len(asserts)-2)
	p := NewPrinter(tb)
	script := p.Script(asserts, nil, "")
	quickN++
	path := filepath.Join(os.TempDir(), fmt.Sprintf("gpv-probe-%d-%d.smt2", os.Getpid(), quickN))
	os.WriteFile(path, []byte(script), 0o644)
	defer os.Remove(path)
	ctx, cancel := context.WithTimeout(context.Background(), 4*time.Second)
	defer cancel()
	ans, _, _ := runOne(ctx, SolverSpec{"z3-5.1.0", []string{"z3-new", "-T:3", "-smt2"}}, path)
	return ans == "unsat"
}

// inferLoopInvariants runs the Houdini probe for loop li whose header state (after havoc and
// after assuming the written invariants) is f.cur. It returns the inductive candidates.
func (f *Frame) inferLoopInvariants(li *loopInfo, b *ssa.BasicBlock, phis []*ssa.Phi, pre map[*ssa.Phi]*Term, preState BState) (kept []*autoCand) {
	u := f.u
	tb := f.tb()
	if u.noInfer {
		return nil
	}
	cands := f.loopCandidates(li, phis, pre)
	if len(cands) == 0 || f.spec {
		return nil
	}
	// entry check (against the state before the havoc)
	var alive []*autoCand
	for _, c := range cands {
		p := c.pred(f, pre[c.phi])
		if p == nil {
			continue
		}
		if p.IsTrue() || u.quickUnsat(append(append(append([]*Term{}, u.axioms...), u.facts...), preState.reach, tb.Not(p))) {
			alive = append(alive, c)
		}
	}
	if len(alive) == 0 {
		return nil
	}
	// snapshot of everything the probe may touch
	nf, no, ctr, nn := len(u.facts), len(u.obls), u.objCtr, len(u.Notes)
	names := map[string]int{}
	for k, v := range u.oblNames {
		names[k] = v
	}
	nsym := u.nsym
	np, nb := len(u.ptrs), len(u.b2s)
	nalloc := len(u.allocs)
	ptrSeen := map[[2]int]bool{}
	for k, v := range u.ptrSeen {
		ptrSeen[k] = v
	}
	rollback := func() {
		u.ptrs = u.ptrs[:np]
		u.allocs = u.allocs[:nalloc]
		u.b2s = u.b2s[:nb]
		u.ptrSeen = map[[2]int]bool{}
		for k, v := range ptrSeen {
			u.ptrSeen[k] = v
		}
		for _, t := range u.facts[nf:] {
			delete(u.factSeen, t.id)
		}
		u.facts = u.facts[:nf]
		u.obls = u.obls[:no]
		u.objCtr = ctr
		u.Notes = u.Notes[:nn]
		u.oblNames = map[string]int{}
		for k, v := range names {
			u.oblNames[k] = v
		}
		_ = nsym
	}
	defer func() {
		if r := recover(); r != nil {
			rollback()
			kept = nil
		}
	}()
	head := f.cur
	for iter := 0; iter < 4 && len(alive) > 0; iter++ {
		for _, c := range alive {
			if p := c.pred(f, f.val(c.phi)[0]); p != nil {
				u.addFact(tb.Implies(head.reach, p))
			}
		}
		pf := *f
		pf.vals = make(map[ssa.Value][]*Term, len(f.vals))
		for k, v := range f.vals {
			pf.vals[k] = v
		}
		pf.edge = map[[2]int]BState{}
		pf.rets = nil
		pf.defers = append([]deferRec{}, f.defers...)
		pf.loopRuns = map[*ssa.BasicBlock]*loopRun{}
		for k, v := range f.loopRuns {
			pf.loopRuns[k] = v
		}
		pf.callCount = map[string]int{}
		pf.probe = &probeRec{header: b}
		pf.unroll = nil
		pf.cur = head
		pf.process(f.order, li.body, b)
		var next []*autoCand
		changed := false
		for _, c := range alive {
			ok := true
			for _, bk := range pf.probe.backs {
				p := c.pred(&pf, bk.vals[c.phi])
				if p == nil {
					ok = false
					break
				}
				if p.IsTrue() {
					continue
				}
				if !u.quickUnsat(append(append(append([]*Term{}, u.axioms...), u.facts...), bk.st.reach, tb.Not(p))) {
					ok = false
					break
				}
			}
			if ok {
				next = append(next, c)
			} else {
				changed = true
			}
		}
		rollback()
		alive = next
		if !changed {
			break
		}
	}
	return alive
}
