package main

import (
	"runtime/pprof"
	"encoding/json"
	"flag"
	"fmt"
	"os"
	"path/filepath"
	"sort"
	"strings"
	"sync"
	"time"
)

type PropConfig struct {
	Configs []BuildConfig `json:"configs"`
}

func defaultConfig() BuildConfig { return BuildConfig{Name: "default", Cgo: true} }

func hasProp(c *Contract, prop string) bool {
	for _, p := range c.Props {
		if p == prop {
			return true
		}
	}
	return false
}

// contractFilesFor returns the contract files that mention the property, plus every
// file declaring externs / contracts that those packages' functions may call
// (all files of module packages imported; we simply take all files — parsing is cheap —
// but only load the packages of files that mention the property, plus "shared" files).
func contractFilesFor(repo, prop string) ([]string, error) {
	all, err := scanContracts(repo)
	if err != nil {
		return nil, err
	}
	var out []string
	for _, f := range all {
		data, _ := os.ReadFile(f)
		txt := string(data)
		if prop == "" || propMentioned(txt, prop) || strings.Contains(txt, "//@ shared") {
			out = append(out, f)
		}
	}
	return out, nil
}

func propMentioned(txt, prop string) bool {
	for _, ln := range strings.Split(txt, "\n") {
		t := strings.TrimSpace(ln)
		if strings.HasPrefix(t, "//@ property") {
			for _, p := range strings.Split(strings.TrimPrefix(t, "//@ property"), ",") {
				if strings.TrimSpace(p) == prop {
					return true
				}
			}
		}
	}
	return false
}

type RunOut struct {
	Units   []*Unit
	Results []*Result
	LoadS   float64
	EncodeS float64
	SolveS  float64
	World   *World
}

// oblFilter (debugging, dump only): solve only obligations whose name contains it
var oblFilter string

func runProperty(repo, prop string, cfg BuildConfig, timeoutS int, scratch string, only string, thorough bool) (*RunOut, error) {
	t0 := time.Now()
	files, err := contractFilesFor(repo, prop)
	if err != nil {
		return nil, err
	}
	if len(files) == 0 {
		return nil, fmt.Errorf("no contract file mentions property %s", prop)
	}
	w, err := LoadWorld(repo, cfg, files, nil)
	if err != nil {
		return &RunOut{World: w}, err
	}
	out := &RunOut{World: w, LoadS: time.Since(t0).Seconds()}
	t1 := time.Now()
	var units []*Unit
	var mu sync.Mutex
	var wg sync.WaitGroup
	sem := make(chan struct{}, 1) // encoding shares the World's caches: one unit at a time
	for _, c := range w.all {
		if !hasProp(c, prop) && prop != "" {
			continue
		}
		if only != "" && !strings.Contains(c.Key(), only) {
			continue
		}
		c := c
		switch c.Kind {
		case "func", "closure", "lemma":
			if c.Flags["assumed"] {
				continue // used at call sites only; listed in the trusted base wherever it is used
			}
			if c.Flags["thorough"] && !thorough {
				continue // heavy unit: thorough tier only
			}
			wg.Add(1)
			go func() {
				defer wg.Done()
				sem <- struct{}{}
				defer func() { <-sem }()
				var u *Unit
				if c.Kind == "lemma" {
					u = w.BuildLemmaUnit(c)
				} else {
					u = w.BuildFuncUnit(c)
				}
				mu.Lock()
				units = append(units, u)
				mu.Unlock()
			}()
		}
	}
	wg.Wait()
	sort.Slice(units, func(i, j int) bool { return units[i].Name < units[j].Name })
	out.Units = units
	out.EncodeS = time.Since(t1).Seconds()
	t2 := time.Now()
	solver := NewSolver(scratch, timeoutS, 16)
	var results []*Result
	var rwg sync.WaitGroup
	for _, u := range units {
		for _, o := range u.obls {
			u, o := u, o
			if oblFilter != "" && !strings.Contains(o.Name, oblFilter) {
				continue
			}
			rwg.Add(1)
			go func() {
				defer rwg.Done()
				r := solver.Solve(u, o)
				mu.Lock()
				results = append(results, r)
				mu.Unlock()
			}()
		}
	}
	rwg.Wait()
	sort.Slice(results, func(i, j int) bool { return results[i].Obl.Name < results[j].Obl.Name })
	out.Results = results
	out.SolveS = time.Since(t2).Seconds()
	return out, nil
}

func main() {
	if len(os.Args) < 2 {
		fmt.Fprintln(os.Stderr, "usage: gpverify check|dump|gen ...")
		os.Exit(2)
	}
	if pf := os.Getenv("GPV_CPUPROFILE"); pf != "" {
		if fh, err := os.Create(pf); err == nil {
			pprof.StartCPUProfile(fh)
			defer pprof.StopCPUProfile()
		}
	}
	switch os.Args[1] {
	case "check":
		rc := cmdCheck(os.Args[2:])
		pprof.StopCPUProfile()
		os.Exit(rc)
	case "dump":
		cmdDump(os.Args[2:])
	case "gen":
		cmdGen(os.Args[2:])
	default:
		fmt.Fprintln(os.Stderr, "unknown command")
		os.Exit(2)
	}
}

func cmdGen(args []string) {
	fs := flag.NewFlagSet("gen", flag.ExitOnError)
	repo := fs.String("repo", "/repo", "")
	prop := fs.String("prop", "", "")
	fs.Parse(args)
	files, _ := contractFilesFor(*repo, *prop)
	w, err := LoadWorld(*repo, defaultConfig(), files, nil)
	if w != nil {
		for d, s := range w.genSrc {
			fmt.Printf("// ===== %s\n%s\n", d, s)
		}
	}
	if err != nil {
		fmt.Println("ERROR:", err)
	}
}

func cmdDump(args []string) {
	fs := flag.NewFlagSet("dump", flag.ExitOnError)
	repo := fs.String("repo", "/repo", "")
	prop := fs.String("prop", "", "")
	only := fs.String("only", "", "")
	timeout := fs.Int("timeout", 20, "")
	keep := fs.String("scratch", "", "")
	fs.StringVar(&oblFilter, "obl", "", "solve only obligations whose name contains this")
	nocgo := fs.Bool("nocgo", false, "load the pure-Go build configuration (CGO_ENABLED=0)")
	fs.Parse(args)
	scratch := *keep
	if scratch == "" {
		scratch, _ = os.MkdirTemp("", "gpv")
		defer os.RemoveAll(scratch)
	}
	cfg := defaultConfig()
	if *nocgo {
		cfg = BuildConfig{Name: "native", Cgo: false}
	}
	out, err := runProperty(*repo, *prop, cfg, *timeout, scratch, *only, true)
	if err != nil {
		fmt.Println("ERROR:", err)
		if out == nil {
			return
		}
	}
	fmt.Printf("load %.1fs encode %.1fs solve %.1fs\n", out.LoadS, out.EncodeS, out.SolveS)
	for _, u := range out.Units {
		fmt.Printf("UNIT %s (%s) facts=%d obls=%d failed=%q\n", u.Name, u.Kind, len(u.facts), len(u.obls), u.Failed)
		for _, n := range u.Notes {
			fmt.Println("   note:", n)
		}
	}
	for _, r := range out.Results {
		fmt.Printf("%-12s %-9s %-10s %6dms %7dB %s", r.Status, r.Answer, r.Solver, r.Ms, r.VCBytes, r.Obl.Name)
		if r.Status == "failed" || r.Status == "cover-failed" {
			fmt.Printf("  @%s:%d %s", filepath.Base(r.Obl.Pos.Filename), r.Obl.Pos.Line, r.Obl.Detail)
			if len(r.Model) > 0 {
				var ks []string
				for k := range r.Model {
					ks = append(ks, k)
				}
				sort.Strings(ks)
				fmt.Printf("\n      model:")
				for _, k := range ks {
					fmt.Printf(" %s=%s", k, r.Model[k])
				}
			}
		}
		fmt.Println()
	}
}

// ---------------------------------------------------------------- check (stub, completed in check.go)

func writeJSON(path string, v any) error {
	data, err := json.MarshalIndent(v, "", " ")
	if err != nil {
		return err
	}
	os.MkdirAll(filepath.Dir(path), 0o755)
	return os.WriteFile(path, append(data, '\n'), 0o644)
}
