package main

import (
	"fmt"
	"go/constant"
	"go/token"
	"go/types"

	"golang.org/x/tools/go/ssa"
)

// Loops whose trip count is a compile-time constant (range over an array, range over a
// constant integer, "for i := 0; i < 8; i++") are unrolled exactly: the body is executed once
// per iteration with the induction variable a constant, so no invariant is needed and every
// iteration's obligations are generated separately. The unrolling is complete: after the
// last iteration the back edge must be unreachable (obligation "unwind", normally folded away).

const maxUnroll = 16
const maxUnrollWork = 900 // blocks x iterations

type unrollBack struct {
	from *ssa.BasicBlock
	st   BState
	vals map[*ssa.Phi][]*Term
}

type unrollRec struct {
	li       *loopInfo
	backs    []unrollBack
	exits    map[[2]int][]BState
	exitKeys [][2]int
	iterExit []*Term
}

// constTrip determines statically the number of iterations of li, if the exit test in the
// header depends only on constants and on header phis that are advanced by constants.
func constTrip(li *loopInfo) (int, bool) {
	h := li.header
	if len(h.Instrs) == 0 {
		return 0, false
	}
	// the controlling test: the header's own branch (while form), or the branch of the single
	// latch block (rotated / do-while form, as go/ssa emits for range-over-int)
	var br *ssa.If
	var inT bool
	latchForm := false
	if x, ok := h.Instrs[len(h.Instrs)-1].(*ssa.If); ok && li.body[h.Succs[0]] != li.body[h.Succs[1]] {
		br, inT = x, li.body[h.Succs[0]]
	} else {
		var latch *ssa.BasicBlock
		n := 0
		for _, p := range h.Preds {
			if isBackEdge(p, h) {
				latch = p
				n++
			}
		}
		if n != 1 || len(latch.Instrs) == 0 {
			return 0, false
		}
		x, ok := latch.Instrs[len(latch.Instrs)-1].(*ssa.If)
		if !ok {
			return 0, false
		}
		switch {
		case latch.Succs[0] == h && !li.body[latch.Succs[1]]:
			br, inT = x, true
		case latch.Succs[1] == h && !li.body[latch.Succs[0]]:
			br, inT = x, false
		default:
			return 0, false
		}
		latchForm = true
	}
	// the header must be the only exiting block that decides the trip count; other exits
	// (break / return) only shorten the execution and are handled by path conditions
	env := map[ssa.Value]int64{}
	var phis []*ssa.Phi
	for _, in := range h.Instrs {
		phi, ok := in.(*ssa.Phi)
		if !ok {
			break
		}
		phis = append(phis, phi)
		var init *int64
		same := true
		for i, p := range h.Preds {
			if isBackEdge(p, h) {
				continue
			}
			c, isC := phi.Edges[i].(*ssa.Const)
			if !isC || c.Value == nil || c.Value.Kind() != constant.Int {
				same = false
				break
			}
			v, exact := constant.Int64Val(c.Value)
			if !exact {
				same = false
				break
			}
			if init != nil && *init != v {
				same = false
				break
			}
			init = &v
		}
		if same && init != nil && isIntType(phi.Type()) {
			env[phi] = *init
		}
	}
	var eval func(v ssa.Value, depth int) (int64, bool)
	eval = func(v ssa.Value, depth int) (int64, bool) {
		if depth > 8 {
			return 0, false
		}
		if x, ok := env[v]; ok {
			return x, true
		}
		switch x := v.(type) {
		case *ssa.Const:
			if x.Value == nil || x.Value.Kind() != constant.Int {
				return 0, false
			}
			r, exact := constant.Int64Val(x.Value)
			return r, exact
		case *ssa.Convert:
			if !isIntType(x.Type()) || !isIntType(x.X.Type()) {
				return 0, false
			}
			r, ok := eval(x.X, depth+1)
			if !ok || r < 0 || r > 1<<31 {
				return 0, false
			}
			return r, true
		case *ssa.BinOp:
			if !li.body[x.Block()] {
				return 0, false
			}
			a, ok1 := eval(x.X, depth+1)
			b, ok2 := eval(x.Y, depth+1)
			if !ok1 || !ok2 {
				return 0, false
			}
			if a < -(1<<31) || a > 1<<31 || b < -(1<<31) || b > 1<<31 {
				return 0, false
			}
			bo := func(c bool) (int64, bool) {
				if c {
					return 1, true
				}
				return 0, true
			}
			switch x.Op {
			case token.ADD:
				return a + b, true
			case token.SUB:
				return a - b, true
			case token.MUL:
				return a * b, true
			case token.LSS:
				return bo(a < b)
			case token.LEQ:
				return bo(a <= b)
			case token.GTR:
				return bo(a > b)
			case token.GEQ:
				return bo(a >= b)
			case token.EQL:
				return bo(a == b)
			case token.NEQ:
				return bo(a != b)
			}
		}
		return 0, false
	}
	for it := 0; it <= maxUnroll; it++ {
		c, ok := eval(br.Cond, 0)
		if !ok {
			return 0, false
		}
		stay := (c != 0) == inT
		if !stay {
			if latchForm {
				return it + 1, true
			}
			return it, true
		}
		next := map[ssa.Value]int64{}
		for _, phi := range phis {
			if _, known := env[phi]; !known {
				continue
			}
			var nv *int64
			okAll := true
			for i, p := range h.Preds {
				if !isBackEdge(p, h) {
					continue
				}
				v, ok := eval(phi.Edges[i], 0)
				if !ok || nv != nil && *nv != v {
					okAll = false
					break
				}
				nv = &v
			}
			if okAll && nv != nil {
				next[phi] = *nv
			}
		}
		env = next
	}
	return 0, false
}

// escaping: values defined in the loop that are referred to outside of it
func escapingValues(li *loopInfo) []ssa.Value {
	var out []ssa.Value
	for b := range li.body {
		for _, in := range b.Instrs {
			v, ok := in.(ssa.Value)
			if !ok || v.Referrers() == nil {
				continue
			}
			for _, r := range *v.Referrers() {
				if !li.body[r.Block()] {
					out = append(out, v)
					break
				}
			}
		}
	}
	return out
}

// tryUnroll executes the loop headed by b by exact unrolling. f.cur is the merged entry state,
// the header's phis are bound to their entry values. Reports false if the loop is not a
// constant-trip loop (nothing has been executed then).
func (f *Frame) tryUnroll(li *loopInfo, b *ssa.BasicBlock) bool {
	if f.u.W.loopContract(f.fn, li.ord) != nil {
		return false
	}
	k, ok := constTrip(li)
	if !ok || k > maxUnroll || (k+1)*len(li.body) > maxUnrollWork {
		return false
	}
	tb := f.tb()
	u := f.u
	var phis []*ssa.Phi
	for _, in := range b.Instrs {
		if phi, ok := in.(*ssa.Phi); ok {
			phis = append(phis, phi)
		} else {
			break
		}
	}
	esc := escapingValues(li)
	type snap struct {
		cond *Term
		vals map[ssa.Value][]*Term
	}
	var snaps []snap
	saved := f.unroll
	ur := &unrollRec{li: li, exits: map[[2]int][]BState{}}
	f.unroll = ur
	clearEdges := func() {
		for key := range f.edge {
			// edges that start inside the loop belong to one iteration
			if li.body[f.fn.Blocks[key[0]]] {
				delete(f.edge, key)
			}
		}
	}
	cur := f.cur
	done := false
	for it := 0; it <= k; it++ {
		clearEdges()
		ur.backs = nil
		ur.iterExit = nil
		f.cur = cur
		f.process(f.order, li.body, b)
		if len(ur.iterExit) > 0 {
			s := snap{cond: tb.orFactor(ur.iterExit), vals: map[ssa.Value][]*Term{}}
			for _, v := range esc {
				if t, ok := f.vals[v]; ok {
					s.vals[v] = t
				}
			}
			snaps = append(snaps, s)
		}
		if len(ur.backs) == 0 {
			done = true
			break
		}
		// next iteration: merge the back edges
		var conds []*Term
		var states []BState
		for _, bk := range ur.backs {
			conds = append(conds, bk.st.reach)
			states = append(states, bk.st)
		}
		cur = BState{reach: tb.orFactor(conds), mem: f.mergeMem(conds, states)}
		for _, phi := range phis {
			var acc []*Term
			for j := len(ur.backs) - 1; j >= 0; j-- {
				v := ur.backs[j].vals[phi]
				if acc == nil {
					acc = v
					continue
				}
				n := make([]*Term, len(v))
				for s := range v {
					n[s] = tb.Ite(conds[j], v[s], acc[s])
				}
				acc = n
			}
			f.set(phi, acc)
		}
	}
	if !done && !f.spec {
		// unwinding assertion: the statically determined trip count is exhaustive
		var conds []*Term
		for _, bk := range ur.backs {
			conds = append(conds, bk.st.reach)
		}
		u.addObl("unwind", f.anchorFor(fmt.Sprintf("loop%d", li.ord)), tb.orFactor(conds), tb.False(), f.pos(blockPos(b)), fmt.Sprintf("loop %d runs more than the %d iterations it was unrolled to", li.ord, k))
	}
	clearEdges()
	f.unroll = saved
	// values defined in the loop and used after it: those of the iteration that left the loop
	for _, v := range esc {
		var acc []*Term
		for j := len(snaps) - 1; j >= 0; j-- {
			t, ok := snaps[j].vals[v]
			if !ok {
				continue
			}
			if acc == nil || len(acc) != len(t) {
				acc = t
				continue
			}
			n := make([]*Term, len(t))
			for s := range t {
				n[s] = tb.Ite(snaps[j].cond, t[s], acc[s])
			}
			acc = n
		}
		if acc != nil {
			f.set(v, acc)
		}
	}
	// exit edges: merged over the iterations
	for _, key := range ur.exitKeys {
		sts := ur.exits[key]
		var conds []*Term
		for _, s := range sts {
			conds = append(conds, s.reach)
		}
		st := BState{reach: tb.orFactor(conds), mem: f.mergeMem(conds, sts)}
		f.recordEdge(f.fn.Blocks[key[0]], f.fn.Blocks[key[1]], st)
	}
	_ = types.Typ
	return true
}

// recordEdge stores the state flowing along b->s, honouring an enclosing unrolled loop.
func (f *Frame) recordEdge(b, s *ssa.BasicBlock, st BState) {
	if st.reach.IsFalse() {
		return
	}
	if ur := f.unroll; ur != nil {
		if s == ur.li.header && isBackEdge(b, s) {
			bk := unrollBack{from: b, st: st, vals: map[*ssa.Phi][]*Term{}}
			idx := predIndex(s, b)
			for _, in := range s.Instrs {
				phi, ok := in.(*ssa.Phi)
				if !ok {
					break
				}
				bk.vals[phi] = f.val(phi.Edges[idx])
			}
			ur.backs = append(ur.backs, bk)
			return
		}
		if ur.li.body[b] && !ur.li.body[s] {
			key := [2]int{b.Index, s.Index}
			if _, seen := ur.exits[key]; !seen {
				ur.exitKeys = append(ur.exitKeys, key)
			}
			ur.exits[key] = append(ur.exits[key], st)
			ur.iterExit = append(ur.iterExit, st.reach)
			return
		}
	}
	if isBackEdge(b, s) {
		f.backEdge(f.hdr[s], b, s, st)
		return
	}
	f.edge[[2]int{b.Index, s.Index}] = st
}
