package main

import (
	"fmt"
	"go/token"
	"go/types"
	"strings"

	"golang.org/x/tools/go/ssa"
)

const maxInlineDepth = 12

type closureInfo struct {
	fn       *ssa.Function
	bindings [][]*Term
}

// stubEval carries the state of a contract stub evaluation.
type stubEval struct {
	old        MemState
	newMem     *MemState // verify mode: the function's final memory
	callsite   bool      // call-site mode: new = havoc(old, assigns)
	requires   []*Term
	ensures    []*Term
	invariants []*Term
	reqPos     []token.Pos
	ensPos     []token.Pos
	invPos     []token.Pos
	decreases  []*Term
	regions    []region
	assignsAll bool
	oldLoads   map[ssa.Instruction]bool
	oldCalls   map[ssa.Instruction]bool
	posted     bool
	freshRes   []*Term // facts about fresh results
	afterHavoc MemState
	startCtr   int64
	callerFreshLimit *Term
	caller     *Frame
}

// pure externs: library functions without effect on the program state under contract
var pureExterns = map[string]bool{
	"fmt.Errorf": true, "errors.New": true, "fmt.Sprintf": true, "fmt.Sprint": true,
}

// cgoRuntimeHelper: helpers that cgo generates into every package that imports "C" (pointer
// checks, keep-alive markers, string conversion): no effect on the verified state. The C
// functions themselves (_Cfunc_*) need assumed contracts.
func cgoRuntimeHelper(name string) bool {
	switch name {
	case "_cgoCheckPointer", "_cgoCheckResult", "_Cgo_use", "_Cgo_keepalive", "_cgo_runtime_gostring", "_cgo_runtime_gostringn", "_cgo_runtime_gobytes", "_cgo_cmalloc":
		return true
	}
	return false
}

func isPureByPackage(pp string) bool {
	// logging / tracing / metrics have no effect on the state under contract; the sync
	// primitives are no-ops in a sequential semantics (no schedule is modelled)
	if pp == "sync" || pp == "sync/atomic" || pp == modPath+"/pkg/logging" {
		return true
	}
	// value-level library code: results are opaque, nothing reachable from the verified code is written
	switch pp {
	case "errors", "internal/bytealg", "regexp", "regexp/syntax", "strings", "strconv", "fmt", "unicode", "unicode/utf8", "path", "math", "net/netip", "unique", "context", "runtime", "reflect":
		return true
	}
	for _, p := range []string{"log/slog", "github.com/els0r/telemetry", "go.opentelemetry.io", "github.com/prometheus"} {
		if strings.HasPrefix(pp, p) {
			return true
		}
	}
	return false
}

func (f *Frame) call(v ssa.Value, c *ssa.CallCommon, in ssa.Instruction) {
	tb := f.tb()
	var res []*Term
	defer func() {
		if v != nil && res != nil {
			f.set(v, res)
		}
	}()
	rt := func() types.Type {
		if v != nil {
			return v.Type()
		}
		return c.Signature().Results()
	}
	var args [][]*Term
	argVals := func() [][]*Term {
		if args == nil {
			for _, a := range c.Args {
				args = append(args, f.val(a))
			}
		}
		return args
	}
	if c.IsInvoke() {
		res = f.invoke(c, in, rt())
		return
	}
	switch callee := c.Value.(type) {
	case *ssa.Builtin:
		res = f.builtin(callee, c, in)
		return
	case *ssa.Function:
		res = f.callFunc(callee, argVals(), nil, in, rt())
		return
	case *ssa.MakeClosure:
		ci := f.u.closures[callee]
		res = f.callFunc(ci.fn, argVals(), ci.bindings, in, rt())
		return
	}
	// dynamic call through a func value
	fv := f.val(c.Value)
	if id, ok := fv[0].ConstInt64(); ok {
		if fn := f.u.W.funcByID[id]; fn != nil && len(fn.FreeVars) == 0 {
			res = f.callFunc(fn, argVals(), nil, in, rt())
			return
		}
	}
	if ci, ok := f.u.closureByEnv[fv[1].id]; ok && fv[1].IsConst() {
		res = f.callFunc(ci.fn, argVals(), ci.bindings, in, rt())
		return
	}
	// a closure that calls itself through the variable it was assigned to ("var helper func(..);
	// helper = func(..) { .. helper(..) .. }"): with flag selfrecursive the call is a recursive
	// call under the closure's own contract
	if con := f.u.Contract; con != nil && con.Flags["selfrecursive"] && f.depth == 0 {
		if ld, ok := c.Value.(*ssa.UnOp); ok && ld.Op == token.MUL {
			if _, isFV := ld.X.(*ssa.FreeVar); isFV && types.Identical(c.Signature(), f.fn.Signature) {
				f.u.Trusted["the captured func variable through which "+con.Target+" calls itself holds that very closure"] = true
				if f.callCount == nil {
					f.callCount = map[string]int{}
				}
				f.callCount["self"]++
				res = f.callByContract(f.fn, con, argVals(), f.freeVars, in, rt(), fmt.Sprintf("self[%d]", f.callCount["self"]))
				return
			}
		}
	}
	// the func value is a case distinction (memory layers, branches) over known top-level
	// functions: dispatch - each alternative under its condition, the rest as an unknown call
	if ids := constLeaves(fv[0], 8); len(ids) > 0 && !f.spec {
		ok := true
		for _, id := range ids {
			if fn := f.u.W.funcByID[id]; fn == nil || len(fn.FreeVars) != 0 {
				ok = false
			}
		}
		if ok {
			base := f.cur
			var conds []*Term
			var states []BState
			var results [][]*Term
			var eqs []*Term
			for _, id := range ids {
				eq := tb.Eq(fv[0], tb.BV(fv[0].Sort.W, id))
				eqs = append(eqs, eq)
				f.cur = BState{reach: tb.And(base.reach, eq), mem: base.mem}
				r := f.callFunc(f.u.W.funcByID[id], argVals(), nil, in, rt())
				conds = append(conds, eq)
				states = append(states, f.cur)
				results = append(results, r)
			}
			f.cur = BState{reach: tb.And(base.reach, tb.Not(tb.Or(eqs...))), mem: base.mem}
			f.nonNil(fv[0], "call", in.Pos())
			f.u.note("dynamic call through func value havocs memory in " + f.fn.String() + " (alternative not among the known functions)")
			f.havocAll("dynamic call")
			rOther := f.freshResult("dyn", rt())
			conds = append(conds, tb.True())
			states = append(states, f.cur)
			results = append(results, rOther)
			var reaches []*Term
			for _, st := range states {
				reaches = append(reaches, st.reach)
			}
			f.cur = BState{reach: tb.Or(reaches...), mem: f.mergeMem(conds, states)}
			res = results[len(results)-1]
			for k := len(results) - 2; k >= 0; k-- {
				if len(results[k]) != len(res) {
					continue
				}
				n := make([]*Term, len(res))
				for j := range res {
					n[j] = tb.Ite(conds[k], results[k][j], res[j])
				}
				res = n
			}
			return
		}
	}
	f.nonNil(fv[0], "call", in.Pos())
	f.u.note("dynamic call through func value havocs memory in " + f.fn.String())
	f.havocAll("dynamic call")
	res = f.freshResult("dyn", rt())
	_ = tb
}

// constLeaves: the distinct constants among the leaves of an ite-term (at most max; nil if the
// term is a constant itself or has none).
func constLeaves(t *Term, max int) []int64 {
	if t.IsConst() {
		return nil
	}
	seen := map[int64]bool{}
	var out []int64
	n := 0
	var walk func(x *Term)
	walk = func(x *Term) {
		n++
		if n > 256 {
			return
		}
		if x.Op == "ite" {
			walk(x.Args[1])
			walk(x.Args[2])
			return
		}
		if c, ok := x.ConstInt64(); ok && c != 0 && !seen[c] {
			seen[c] = true
			out = append(out, c)
		}
	}
	walk(t)
	if len(out) > max {
		return nil
	}
	return out
}

func (f *Frame) makeClosure(x *ssa.MakeClosure) {
	tb := f.tb()
	fn := x.Fn.(*ssa.Function)
	var b [][]*Term
	for _, bv := range x.Bindings {
		b = append(b, f.val(bv))
	}
	ci := &closureInfo{fn: fn, bindings: b}
	f.u.closures[x] = ci
	env := f.allocObj()
	f.u.closureByEnv[env.id] = ci
	f.set(x, []*Term{tb.BV(32, f.u.W.funcID(fn)), env})
}

func (f *Frame) deferCall(x *ssa.Defer) {
	c := x.Common()
	d := deferRec{cond: f.cur.reach, call: c, pos: x.Pos(), instr: x}
	for _, a := range c.Args {
		d.args = append(d.args, f.val(a))
	}
	if !c.IsInvoke() {
		switch c.Value.(type) {
		case *ssa.Function, *ssa.Builtin, *ssa.MakeClosure:
		default:
			d.fn = f.val(c.Value)
		}
	} else {
		d.fn = f.val(c.Value)
	}
	f.defers = append(f.defers, d)
}

func (f *Frame) runDefers() {
	tb := f.tb()
	for i := len(f.defers) - 1; i >= 0; i-- {
		d := f.defers[i]
		cond := tb.And(f.cur.reach, d.cond)
		if cond.IsFalse() {
			continue
		}
		before := f.cur
		f.cur = BState{reach: cond, mem: before.mem}
		f.execDeferred(d)
		after := f.cur
		// merge: if the defer was registered on this path its effects apply
		merged := f.mergeMem([]*Term{d.cond, tb.Not(d.cond)}, []BState{{mem: after.mem}, {mem: before.mem}})
		f.cur = BState{reach: before.reach, mem: merged}
	}
}

func (f *Frame) execDeferred(d deferRec) {
	c := d.call
	if c.IsInvoke() {
		f.u.note("deferred interface call havocs memory in " + f.fn.String())
		f.havocAll("deferred invoke")
		return
	}
	switch callee := c.Value.(type) {
	case *ssa.Function:
		f.callFunc(callee, d.args, nil, d.instr, c.Signature().Results())
	case *ssa.MakeClosure:
		ci := f.u.closures[callee]
		f.callFunc(ci.fn, d.args, ci.bindings, d.instr, c.Signature().Results())
	case *ssa.Builtin:
		f.u.note("deferred builtin " + callee.Name() + " ignored")
	default:
		f.u.note("deferred dynamic call havocs memory in " + f.fn.String())
		f.havocAll("deferred dynamic call")
	}
}

// havocAll forgets everything about pre-existing memory.
func (f *Frame) havocAll(why string) {
	tb := f.tb()
	limit := tb.BVU(32, uint64(freshBase+f.u.objCtr+1))
	f.cur.mem = f.cur.mem.clone()
	for k, m := range f.cur.mem.m {
		fresh := f.u.mc.NewBase("hv", m.sort, f.havocBound())
		f.cur.mem.m[k] = f.u.mc.HavocObjs(m, limit, fresh)
		f.cur.mem.m[k].except = f.u.privateSnapshot()
	}
	f.havocMaps(&f.cur.mem, limit)
	if f.writeChecksActive() {
		f.u.addObl("frame", f.anchorFor("havoc:"+why), f.cur.reach, tb.False(), token.Position{}, "unmodelled effect ("+why+") cannot be shown to respect the assigns clause")
	}
}

func calleeName(fn *ssa.Function) string {
	pp := fnPkgPath(fn)
	pp = strings.TrimPrefix(pp, modPath+"/")
	if i := strings.LastIndex(pp, "/"); i >= 0 {
		pp = pp[i+1:]
	}
	return pp + "." + funcKey(fn)
}

// callFunc handles a call with a statically known callee.
func (f *Frame) callFunc(fn *ssa.Function, args [][]*Term, bindings [][]*Term, in ssa.Instruction, rt types.Type) []*Term {
	name := fn.Name()
	if o := fn.Origin(); o != nil {
		name = o.Name()
	}
	if strings.HasPrefix(name, "verif") && fn.Pkg != nil || (fn.Origin() != nil && strings.HasPrefix(name, "verif")) {
		if r, ok := f.intrinsic(name, fn, args, in, rt); ok {
			return r
		}
	}
	cn := calleeName(fn)
	if f.callCount == nil {
		f.callCount = map[string]int{}
	}
	f.callCount[cn]++
	anchor := fmt.Sprintf("%s[%d]", cn, f.callCount[cn])
	inOld := f.stub != nil && f.stub.oldCalls[in]
	// contract?
	con := f.u.W.contractFor(fn)
	forceInline := f.inl[funcKey(fn)] || f.inl[cn]
	if con != nil && con.Kind == "model" {
		// the callee is represented by an executable model written in a spec block (assumed faithful)
		f.u.Trusted["model program stands for "+con.Target+": "+con.StubName] = true
		fn = f.u.W.stubs[con]
		con = nil
		bindings = nil
	}
	if con != nil && !forceInline && !f.spec {
		return f.callByContract(fn, con, args, bindings, in, rt, anchor)
	}
	if pp0 := fnPkgPath(fn); pureExterns[pp0+"."+funcKey(fn)] || isPureByPackage(pp0) || cgoRuntimeHelper(fn.Name()) {
		q0 := pp0 + "." + funcKey(fn)
		f.u.Trusted["pure (no effect on verified state): "+q0] = true
		r := f.u.freshValue("ext", rt)
		f.resultFacts(rt, r, q0)
		return r
	}
	// spec mode or no contract: inline when possible
	if len(fn.Blocks) > 0 && f.depth < maxInlineDepth && f.inlinable(fn) {
		sub := &Frame{u: f.u, fn: fn, vals: map[ssa.Value][]*Term{}, spec: f.spec, depth: f.depth + 1,
			anchor: f.anchorFor(anchor), freeVars: bindings, frame: f.frame, inl: f.inl, loopFrames: f.activeLoopFrames(), entryMem: &MemState{}}
		*sub.entryMem = f.cur.mem
		if f.stub != nil {
			sub.stub = &stubEval{old: f.stub.old, startCtr: f.stub.startCtr, oldLoads: map[ssa.Instruction]bool{}, oldCalls: map[ssa.Instruction]bool{}}
		}
		for i, p := range fn.Params {
			sub.set(p, args[i])
		}
		entry := f.cur
		if inOld {
			entry = BState{reach: f.cur.reach, mem: f.stub.old}
		}
		res, out := sub.run(entry)
		if out.reach.IsFalse() && !f.spec {
			// callee never returns normally on this path
			f.cur.reach = f.tb().False()
			return f.u.zero(rt)
		}
		if !inOld {
			f.cur.mem = out.mem
		}
		if !f.spec {
			f.cur.reach = out.reach
		}
		if res == nil {
			res = []*Term{}
		}
		return res
	}
	pp := fnPkgPath(fn)
	q := pp + "." + funcKey(fn)
	if pureExterns[q] || isPureByPackage(pp) {
		f.u.Trusted["pure (no effect on verified state): "+q] = true
		r := f.u.freshValue("ext", rt)
		f.resultFacts(rt, r, q)
		return r
	}
	ghost := len(fn.Blocks) == 0 && strings.HasPrefix(name, "verif") && strings.HasPrefix(pp, modPath)
	if f.spec || ghost {
		// uninterpreted pure function of its argument slots (a bodyless spec function is one in
		// executable ghost code, too: lemma bodies and model programs)
		var flat []*Term
		for _, a := range args {
			flat = append(flat, a...)
		}
		ss := f.u.W.layout.Slots(rt)
		r := make([]*Term, len(ss))
		for i, s := range ss {
			r[i] = f.tb().UF(fmt.Sprintf("spec!%s!%d", q, i), s, flat...)
		}
		if ghost {
			// ghost values denote data that exists independently of the execution: input world
			for _, fact := range f.u.validFacts(rt, r, f.tb().BVU(32, freshBase)) {
				if !fact.hasBV {
					f.u.addFact(fact)
				}
			}
		}
		return r
	}
	f.u.note("call to " + q + " has no contract and cannot be inlined: results and memory havocked")
	f.havocAll("call " + q)
	return f.freshResult("ext", rt)
}

func (u *Unit) privateSnapshot() map[int64]bool {
	if len(u.privateObjs) == 0 {
		return nil
	}
	if len(u.privateObjs) > 24 {
		// keep the exclusion list short: only the most recent private variables (the older ones
		// are then havocked too, which is sound)
		out := map[int64]bool{}
		lim := int64(freshBase) + u.objCtr - 64
		for id := range u.privateObjs {
			if id >= lim {
				out[id] = true
			}
		}
		return out
	}
	out := make(map[int64]bool, len(u.privateObjs))
	for id := range u.privateObjs {
		out[id] = true
	}
	return out
}

// freshResult: an unconstrained value of type rt that is a valid Go value
func (f *Frame) freshResult(prefix string, rt types.Type) []*Term {
	r := f.u.freshValue(prefix, rt)
	for _, fact := range f.u.validFacts(rt, r, f.tb().BVU(32, 0xffffffff)) {
		if !fact.hasBV {
			f.u.addFact(fact)
		}
	}
	f.u.strFacts(r)
	return r
}

func (f *Frame) resultFacts(rt types.Type, r []*Term, q string) {
	tb := f.tb()
	bound := tb.BVU(32, 0xffffffff)
	for _, fact := range f.u.validFacts(rt, r, bound) {
		f.u.addFact(fact)
	}
	// error constructors return non-nil
	if q == "fmt.Errorf" || q == "errors.New" {
		f.u.addFact(tb.Not(tb.Eq(r[0], tb.BV(32, 0))))
	}
}

// inlinable: loop-free (or every loop has an invariant block), no recursion on the stack.
// packages outside /repo whose (small, loop-free or simply looping) functions are expanded from
// their source; everything else outside /repo needs a contract, a model or is opaque
var inlineAllow = map[string]bool{"time": true, "encoding/binary": true, "math/bits": true, "slices": true, "bytes": true, "cmp": true, "internal/byteorder": true}

func (f *Frame) inlinable(fn *ssa.Function) bool {
	if f.fn == fn {
		return false
	}
	if f.u.inlineStack[fn] {
		return false
	}
	if pp := fnPkgPath(fn); !strings.HasPrefix(pp, modPath) && (!inlineAllow[pp] || len(fn.Blocks) > 40) {
		return false
	}
	loops, err := findLoops(fn)
	if err != nil {
		return false
	}
	for _, l := range loops {
		if f.u.W.loopContract(fn, l.ord) == nil && !f.spec && !constTripLoop(l) {
			// a loop without invariant is still sound (invariant "true"), but nearly useless; allow anyway
			_ = l
		}
	}
	return true
}

func constTripLoop(l *loopInfo) bool { return false }

// ------------------------------------------------------------------ builtins

func (f *Frame) builtin(b *ssa.Builtin, c *ssa.CallCommon, in ssa.Instruction) []*Term {
	tb := f.tb()
	L := f.u.W.layout
	switch b.Name() {
	case "len":
		v := f.val(c.Args[0])
		switch t := c.Args[0].Type().Underlying().(type) {
		case *types.Slice:
			return []*Term{v[2]}
		case *types.Basic:
			return []*Term{f.u.slen(v[0])}
		case *types.Map:
			return []*Term{f.u.mapLen(f, v[0])}
		case *types.Pointer:
			return []*Term{tb.BV(64, t.Elem().Underlying().(*types.Array).Len())}
		case *types.Array:
			return []*Term{tb.BV(64, t.Len())}
		case *types.Chan:
			return []*Term{f.chanLen(v[0])}
		}
	case "cap":
		v := f.val(c.Args[0])
		switch t := c.Args[0].Type().Underlying().(type) {
		case *types.Slice:
			return []*Term{v[3]}
		case *types.Pointer:
			return []*Term{tb.BV(64, t.Elem().Underlying().(*types.Array).Len())}
		case *types.Array:
			return []*Term{tb.BV(64, t.Len())}
		case *types.Chan:
			return []*Term{f.chanCap(v[0])}
		}
	case "copy":
		dst := f.val(c.Args[0])
		src := f.val(c.Args[1])
		et := c.Args[0].Type().Underlying().(*types.Slice).Elem()
		es := L.Size(et)
		var n *Term
		var srcIsStr bool
		if _, ok := c.Args[1].Type().Underlying().(*types.Basic); ok {
			srcIsStr = true
			sl := f.u.slen(src[0])
			n = tb.Ite(tb.Ult(dst[2], sl), dst[2], sl)
		} else {
			n = tb.Ite(tb.Ult(dst[2], src[2]), dst[2], src[2])
		}
		nslots := tb.Mul(n, tb.BV(64, es))
		f.checkWrite(dst[0], dst[1], nslots, "copy", in.Pos())
		f.cur.mem = f.cur.mem.clone()
		if cn, ok := nslots.ConstInt64(); ok && cn <= 64 && !srcIsStr {
			// expand to individual stores (reads from the pre-copy memory: memmove semantics)
			pre := f.cur.mem
			ss := L.Slots(et)
			for k := int64(0); k < cn; k++ {
				s := ss[k%es]
				key := s.Key()
				val := f.u.mc.Sel(pre.m[key], src[0], tb.Add(src[1], tb.BV(64, k)))
				f.cur.mem.m[key] = f.u.mc.Store(f.cur.mem.m[key], dst[0], tb.Add(dst[1], tb.BV(64, k)), val)
			}
		} else if dn, ok := dst[2].ConstInt64(); ok && dn*es <= 64 && !srcIsStr && es == 1 {
			// destination of constant length, source length symbolic: slot k is written iff k < len(src)
			pre := f.cur.mem
			s := L.Slots(et)[0]
			key := s.Key()
			for k := int64(0); k < dn; k++ {
				in := tb.Ult(tb.BV(64, k), src[2])
				val := f.u.mc.Sel(pre.m[key], src[0], tb.Add(src[1], tb.BV(64, k)))
				old := f.u.mc.Sel(pre.m[key], dst[0], tb.Add(dst[1], tb.BV(64, k)))
				f.cur.mem.m[key] = f.u.mc.Store(f.cur.mem.m[key], dst[0], tb.Add(dst[1], tb.BV(64, k)), tb.Ite(in, val, old))
			}
		} else {
			for _, s := range L.ElemSorts(et) {
				key := s.Key()
				if srcIsStr {
					sb := f.u.mc.node(&MemNode{kind: mStrBytes, sort: BV8, val: src[0]})
					// destination slot d+k reads string byte k: express as copy from a pseudo object at offset 0
					f.cur.mem.m[key] = f.u.mc.Copy(f.cur.mem.m[key], dst[0], dst[1], nslots, sb, tb.BV(32, 0), tb.BV(64, 0))
				} else {
					f.cur.mem.m[key] = f.u.mc.Copy(f.cur.mem.m[key], dst[0], dst[1], nslots, f.cur.mem.m[key], src[0], src[1])
				}
			}
		}
		return []*Term{n}
	case "append":
		return f.appendBuiltin(c, in)
	case "min", "max":
		t := c.Args[0].Type()
		acc := f.val(c.Args[0])[0]
		bt, _ := t.Underlying().(*types.Basic)
		if bt == nil || bt.Info()&types.IsInteger == 0 {
			panic(unsupported("min/max on " + t.String()))
		}
		for _, a := range c.Args[1:] {
			y := f.val(a)[0]
			var lt *Term
			if isSigned(t) {
				lt = tb.Slt(y, acc)
			} else {
				lt = tb.Ult(y, acc)
			}
			if b.Name() == "max" {
				lt = tb.Not(tb.Or(lt, tb.Eq(y, acc)))
			}
			acc = tb.Ite(lt, y, acc)
		}
		return []*Term{acc}
	case "delete":
		f.mapDelete(c, in)
		return []*Term{}
	case "clear":
		f.u.note("clear() havocs memory in " + f.fn.String())
		f.havocAll("clear")
		return []*Term{}
	case "print", "println":
		return []*Term{}
	case "ssa:wrapnilchk":
		v := f.val(c.Args[0])
		f.nonNil(v[0], "wrapnilchk", in.Pos())
		return v
	case "recover":
		return f.u.zero(types.NewInterfaceType(nil, nil))
	case "close":
		return []*Term{}
	}
	panic(unsupported("builtin " + b.Name() + " on " + c.Args[0].Type().String()))
}

func (f *Frame) appendBuiltin(c *ssa.CallCommon, in ssa.Instruction) []*Term {
	tb := f.tb()
	L := f.u.W.layout
	s := f.val(c.Args[0])
	et := c.Args[0].Type().Underlying().(*types.Slice).Elem()
	es := L.Size(et)
	var addLen *Term
	var src []*Term
	srcIsStr := false
	if _, ok := c.Args[1].Type().Underlying().(*types.Basic); ok {
		srcIsStr = true
		src = f.val(c.Args[1])
		addLen = f.u.slen(src[0])
	} else {
		src = f.val(c.Args[1])
		addLen = src[2]
	}
	newLen := tb.Add(s[2], addLen)
	fits := tb.Ule(newLen, s[3])
	// in place: write src at s[off + len*es]; otherwise a fresh object with a copy of the prefix
	nobj := f.allocObj()
	ncap := f.u.fresh("appcap", BV64)
	f.u.addFact(tb.Implies(f.cur.reach, tb.And(tb.Ule(newLen, ncap), tb.Ule(ncap, tb.BVU(64, 1<<40)))))
	robj := tb.Ite(fits, s[0], nobj)
	roff := tb.Ite(fits, s[1], tb.BV(64, 0))
	rcap := tb.Ite(fits, s[3], ncap)
	// frame check only matters for the in-place case
	if fs := f.frameSpecActive(); fs != nil && !f.spec {
		dst := tb.Add(s[1], tb.Mul(s[2], tb.BV(64, es)))
		save := f.cur.reach
		f.cur.reach = tb.And(save, fits, tb.Not(tb.Eq(addLen, tb.BV(64, 0))))
		f.checkWrite(s[0], dst, tb.Mul(addLen, tb.BV(64, es)), "append", in.Pos())
		f.cur.reach = save
	}
	// type safety: the element written in place is an element of a []E - it cannot overlap a
	// value of a type that holds no E (the header struct of the data structure, say)
	if !f.spec && !s[0].IsConst() {
		switch et.Underlying().(type) {
		case *types.Struct, *types.Pointer, *types.Slice, *types.Array:
			dst := tb.Add(s[1], tb.Mul(s[2], tb.BV(64, es)))
			for _, fact := range f.u.registerTyped(et, s[0], dst) {
				if !fact.hasBV {
					f.u.addFact(tb.Implies(tb.And(f.cur.reach, fits), fact))
				}
			}
		}
	}
	f.cur.mem = f.cur.mem.clone()
	for _, so := range L.ElemSorts(et) {
		key := so.Key()
		pre := f.cur.mem.m[key]
		// fresh object: zero tail, prefix copied
		m := f.u.mc.HavocRange(pre, nobj, tb.BV(64, 0), tb.Mul(ncap, tb.BV(64, es)), f.u.zeroBase(so))
		m = f.u.mc.Copy(m, nobj, tb.BV(64, 0), tb.Mul(s[2], tb.BV(64, es)), pre, s[0], s[1])
		// appended elements at robj, roff + len*es
		dstOff := tb.Add(roff, tb.Mul(s[2], tb.BV(64, es)))
		if srcIsStr {
			sb := f.u.mc.node(&MemNode{kind: mStrBytes, sort: BV8, val: src[0]})
			m = f.u.mc.Copy(m, robj, dstOff, addLen, sb, tb.BV(32, 0), tb.BV(64, 0))
		} else if cn, ok := addLen.ConstInt64(); ok && cn*es <= 64 {
			for k := int64(0); k < cn*es; k++ {
				if L.Slots(et)[k%es] != so {
					continue
				}
				val := f.u.mc.Sel(pre, src[0], tb.Add(src[1], tb.BV(64, k)))
				m = f.u.mc.Store(m, robj, tb.Add(dstOff, tb.BV(64, k)), val)
			}
		} else {
			m = f.u.mc.Copy(m, robj, dstOff, tb.Mul(addLen, tb.BV(64, es)), pre, src[0], src[1])
		}
		f.cur.mem.m[key] = m
	}
	return []*Term{robj, roff, newLen, rcap}
}

// ------------------------------------------------------------------ intrinsics

func (f *Frame) intrinsic(name string, fn *ssa.Function, args [][]*Term, in ssa.Instruction, rt types.Type) ([]*Term, bool) {
	tb := f.tb()
	st := f.stub
	switch name {
	case "verifRequires":
		if st != nil && st.caller != nil {
			st.requires = append(st.requires, tb.Implies(f.cur.reach, args[0][0]))
			st.reqPos = append(st.reqPos, in.Pos())
		}
		return []*Term{}, true
	case "verifEnsures":
		if st != nil && st.caller != nil {
			st.ensures = append(st.ensures, tb.Implies(f.cur.reach, args[0][0]))
			st.ensPos = append(st.ensPos, in.Pos())
		}
		return []*Term{}, true
	case "verifInvariant":
		if st != nil && st.caller != nil {
			st.invariants = append(st.invariants, tb.Implies(f.cur.reach, args[0][0]))
			st.invPos = append(st.invPos, in.Pos())
		}
		return []*Term{}, true
	case "verifDecreases":
		if st != nil && st.caller != nil {
			st.decreases = append(st.decreases, args[0][0])
		}
		return []*Term{}, true
	case "verifAssume":
		if !args[0][0].hasBV {
			f.u.addFact(tb.Implies(f.cur.reach, args[0][0]))
		}
		return []*Term{}, true
	case "verifAssert":
		f.u.addObl("lemma", f.anchorFor("assert"), f.cur.reach, args[0][0], f.pos(in.Pos()), "lemma assertion")
		// once proved it may be used
		f.u.addFact(tb.Implies(f.cur.reach, args[0][0]))
		return []*Term{}, true
	case "verifPost":
		if st != nil && st.caller != nil && !st.posted {
			st.posted = true
			st.enterPost(f)
		}
		return []*Term{}, true
	case "verifOld":
		return args[0], true
	case "verifIte":
		c := args[0][0]
		r := make([]*Term, len(args[1]))
		for i := range r {
			r[i] = tb.Ite(c, args[1][i], args[2][i])
		}
		return r, true
	case "verifAny":
		return f.u.freshValue("any", rt), true
	case "verifForall", "verifExists":
		return []*Term{f.quantifier(name == "verifForall", args, in)}, true
	case "verifAssigns":
		if st != nil && st.caller != nil {
			f.collectRegions(in, st)
		}
		return []*Term{}, true
	case "verifFresh":
		// every pointer/slice argument refers to an object allocated during the call
		var cs []*Term
		for _, r := range f.variadicArgs(in) {
			cs = append(cs, tb.Not(tb.Ult(r.obj, f.freshLimit())))
			if f.stub != nil && f.stub.caller != nil && f.stub.newMem == nil {
				// assumed at a call site: the callee's allocations live in the id band reserved for it
				cs = append(cs, tb.Ult(r.obj, tb.Add(f.freshLimit(), tb.BV(32, 1<<16))))
			}
		}
		return []*Term{tb.And(cs...)}, true
	case "verifDisjoint":
		rs := f.variadicPair(in)
		if len(rs) != 2 {
			return []*Term{tb.True()}, true
		}
		a, b := rs[0], rs[1]
		return []*Term{tb.Or(tb.Not(tb.Eq(a.obj, b.obj)), tb.Ule(a.hi, b.lo), tb.Ule(b.hi, a.lo))}, true
	case "verifSeparate":
		// the two pointers / slices refer to different allocations
		rs := f.variadicPair(in)
		if len(rs) != 2 {
			return []*Term{tb.True()}, true
		}
		return []*Term{tb.Not(tb.Eq(rs[0].obj, rs[1].obj))}, true
	case "verifSameSlice":
		rs := f.variadicPair(in)
		if len(rs) != 2 {
			return []*Term{tb.False()}, true
		}
		return []*Term{tb.And(tb.Eq(rs[0].obj, rs[1].obj), tb.Eq(rs[0].lo, rs[1].lo))}, true
	case "verifUnchanged":
		// the listed regions have the same content in the old and the current memory (needs a quantifier per region)
		var cs []*Term
		for _, r := range f.variadicArgs(in) {
			cs = append(cs, f.unchangedTerm(r))
		}
		return []*Term{tb.And(cs...)}, true
	}
	return nil, false
}

func (f *Frame) freshLimit() *Term {
	if f.stub != nil && f.stub.caller != nil {
		return f.stub.callerFreshLimit
	}
	return f.tb().BVU(32, freshBase)
}

// enterPost switches the stub frame to the post-state memory.
func (st *stubEval) enterPost(f *Frame) {
	local := f.cur.mem // holds the stub's own local objects (copies of array / struct parameters)
	var post MemState
	if st.newMem != nil {
		post = *st.newMem
	} else {
		// call-site mode: havoc what the callee may assign
		save := st.caller.hvBound
		st.caller.hvBound = f.tb().Add(st.callerFreshLimit, f.tb().BV(32, 1<<16))
		post = st.caller.havocRegions(st.old, st.regions, st.assignsAll)
		st.caller.hvBound = save
		st.afterHavoc = post
	}
	// objects allocated by the stub itself since it started keep their content
	tb := f.tb()
	lo := tb.BVU(32, uint64(freshBase+st.startCtr+1))
	hi := tb.BVU(32, uint64(freshBase+f.u.objCtr))
	if f.u.objCtr > st.startCtr {
		post = post.clone()
		for k, m := range post.m {
			post.m[k] = f.u.mc.ObjRange(m, lo, hi, local.m[k])
		}
	}
	f.cur.mem = post
}

// havocBound: references found in memory that a callee (or the iterations of a loop) may have
// written denote objects that exist by then: everything allocated so far, and for a call by
// contract the id band reserved for the callee's own allocations - not the ghost objects a
// contract stub creates while it is evaluated.
func (f *Frame) havocBound() *Term {
	if f.hvBound != nil {
		return f.hvBound
	}
	return f.tb().BVU(32, uint64(freshBase+f.u.objCtr+1))
}

func (f *Frame) havocRegions(mem MemState, regs []region, all bool) MemState {
	out := mem.clone()
	if all {
		limit := f.tb().BVU(32, uint64(freshBase+f.u.objCtr+1))
		for k, m := range out.m {
			out.m[k] = f.u.mc.HavocObjs(m, limit, f.u.mc.NewBase("hv", m.sort, f.havocBound()))
			out.m[k].except = f.u.privateSnapshot()
		}
		f.havocMaps(&out, limit)
		return out
	}
	mapsDone := false
	for _, r := range regs {
		if r.isMap && !mapsDone {
			// (coarser than needed: the content and length of every map that exists now)
			mapsDone = true
			limit := f.tb().BVU(32, uint64(freshBase+f.u.objCtr+1))
			f.havocMaps(&out, limit)
			out.m[mapLenKey] = f.u.mc.HavocObjs(out.m[mapLenKey], limit, f.u.mc.NewBase("hvml", BV64, f.havocBound()))
		}
		for _, s := range r.sorts {
			k := s.Key()
			fresh := f.u.mc.NewBase("hv", s, f.havocBound())
			if r.cond.IsTrue() {
				out.m[k] = f.u.mc.HavocRange(out.m[k], r.obj, r.lo, r.hi, fresh)
			} else {
				out.m[k] = f.u.mc.Ite(r.cond, f.u.mc.HavocRange(out.m[k], r.obj, r.lo, r.hi, fresh), out.m[k])
			}
		}
	}
	return out
}

// regionOfArg interprets a pointer / slice value as a memory region.
func (f *Frame) regionOf(t types.Type, v []*Term) (region, bool) {
	tb := f.tb()
	L := f.u.W.layout
	switch ut := t.Underlying().(type) {
	case *types.Pointer:
		n := L.Size(ut.Elem())
		return region{obj: v[0], lo: v[1], hi: tb.Add(v[1], tb.BV(64, n)), sorts: L.ElemSorts(ut.Elem()), cond: f.cur.reach}, true
	case *types.Slice:
		es := L.Size(ut.Elem())
		return region{obj: v[0], lo: v[1], hi: tb.Add(v[1], tb.Mul(v[2], tb.BV(64, es))), sorts: L.ElemSorts(ut.Elem()), cond: f.cur.reach}, true
	case *types.Map:
		// a map in an assigns clause: its entries (the writes to a map are checked as writes to
		// slot 0 of the map object)
		return region{obj: v[0], lo: tb.BV(64, 0), hi: tb.BV(64, 1), cond: f.cur.reach, isMap: true}, true
	}
	return region{}, false
}

// variadic ...any arguments: the SSA builds a []any; we look through the stores.
func (f *Frame) variadicArgs(in ssa.Instruction) []region {
	call, ok := in.(*ssa.Call)
	if !ok {
		return nil
	}
	var out []region
	for _, a := range call.Call.Args {
		out = append(out, f.anyRegions(a)...)
	}
	return out
}

func (f *Frame) variadicPair(in ssa.Instruction) []region { return f.variadicArgs(in) }

// anyRegions: the argument is either a MakeInterface of a pointer/slice, or a slice
// of such built by the variadic call sequence (new [n]any; stores; slice).
func (f *Frame) anyRegions(a ssa.Value) []region {
	switch x := a.(type) {
	case *ssa.MakeInterface:
		if r, ok := f.regionOf(x.X.Type(), f.val(x.X)); ok {
			return []region{r}
		}
		return nil
	case *ssa.Slice:
		alloc, ok := x.X.(*ssa.Alloc)
		if !ok {
			return nil
		}
		var out []region
		for _, ref := range *alloc.Referrers() {
			ia, ok := ref.(*ssa.IndexAddr)
			if !ok {
				continue
			}
			for _, r2 := range *ia.Referrers() {
				if st, ok := r2.(*ssa.Store); ok {
					out = append(out, f.anyRegions(st.Val)...)
				}
			}
		}
		return out
	case *ssa.Const:
		return nil
	}
	return nil
}

func (f *Frame) collectRegions(in ssa.Instruction, st *stubEval) {
	rs := f.variadicArgs(in)
	st.regions = append(st.regions, rs...)
}

func (f *Frame) unchangedTerm(r region) *Term {
	tb := f.tb()
	if f.stub == nil {
		return tb.True()
	}
	i := tb.BVar(fmt.Sprintf("u!%d", f.u.nsym), BV64)
	f.u.nsym++
	var cs []*Term
	for _, s := range r.sorts {
		a := f.u.mc.Sel(f.stub.old.m[s.Key()], r.obj, i)
		b := f.u.mc.Sel(f.cur.mem.m[s.Key()], r.obj, i)
		cs = append(cs, tb.Eq(a, b))
	}
	body := tb.Implies(tb.And(tb.Ule(r.lo, i), tb.Ult(i, r.hi)), tb.And(cs...))
	return tb.Forall([]*Term{i}, body)
}

// quantifier: verifForall(lo, hi, func(i int) bool {...})
func (f *Frame) quantifier(forall bool, args [][]*Term, in ssa.Instruction) *Term {
	tb := f.tb()
	call := in.(*ssa.Call)
	fv := call.Call.Args[2]
	var ci *closureInfo
	switch x := fv.(type) {
	case *ssa.MakeClosure:
		ci = f.u.closures[x]
	case *ssa.Function:
		ci = &closureInfo{fn: x}
	default:
		panic(unsupported("quantifier body must be a function literal"))
	}
	// constant bounds with few instances: expand (keeps offsets syntactically comparable)
	if lo, ok1 := args[0][0].ConstInt64(); ok1 {
		if hi, ok2 := args[1][0].ConstInt64(); ok2 && hi-lo <= 64 {
			var parts []*Term
			for k := lo; k < hi; k++ {
				parts = append(parts, f.quantInstance(ci, tb.BV(64, k), in))
			}
			if forall {
				return tb.And(parts...)
			}
			return tb.Or(parts...)
		}
	}
	// an upper bound of the form e+c (c = 1..3): peel the last elements off, so that
	// "forall [lo, e+1)" becomes "forall [lo, e)  and  P(e)" — the remaining quantifier is then
	// syntactically the one assumed at the loop head and the rest is ground
	if base, c := tb.splitAdd(args[1][0]); base != nil && c.IsInt64() && c.Int64() >= 1 && c.Int64() <= 3 && !args[1][0].hasBV {
		e := tb.Sub(args[1][0], tb.BV(64, 1))
		rest := f.quantifier(forall, [][]*Term{args[0], {e}, args[2]}, in)
		inst := f.quantInstance(ci, e, in)
		guard := tb.Sle(args[0][0], e)
		if forall {
			return tb.And(rest, tb.Implies(guard, inst))
		}
		return tb.Or(rest, tb.And(guard, inst))
	}
	// the bound variable is named after the function literal: two evaluations of the same
	// quantifier (loop head / back edge, requires / ensures) then yield identical terms
	// whenever their bodies agree (nested quantifiers come from different literals)
	bv := tb.BVar("q!"+ci.fn.Name(), BV64)
	sub := &Frame{u: f.u, fn: ci.fn, vals: map[ssa.Value][]*Term{}, spec: true, depth: f.depth + 1, freeVars: ci.bindings, inl: f.inl}
	if f.stub != nil {
		sub.stub = &stubEval{old: f.stub.old, startCtr: f.stub.startCtr, oldLoads: markOld(ci.fn), oldCalls: map[ssa.Instruction]bool{}}
		sub.stub.oldCalls = markOldCalls(ci.fn, sub.stub.oldLoads)
	} else {
		sub.stub = &stubEval{old: f.u.M0, startCtr: 1<<40, oldLoads: markOld(ci.fn), oldCalls: map[ssa.Instruction]bool{}}
		sub.stub.oldCalls = markOldCalls(ci.fn, sub.stub.oldLoads)
	}
	sub.set(ci.fn.Params[0], []*Term{bv})
	entry := BState{reach: tb.True(), mem: f.cur.mem}
	if f.stub != nil && f.stub.oldCalls[in] {
		entry.mem = f.stub.old
	}
	nf := len(f.u.facts)
	res, _ := sub.run(entry)
	body := res[0]
	// facts produced while the body was evaluated that mention the bound variable (definitional
	// facts of substrings, lengths, ...) are valid for every index: they move inside the
	// quantifier as hypotheses of the body instead of staying behind as open global facts
	var local []*Term
	kept := f.u.facts[:nf:nf]
	for _, t := range f.u.facts[nf:] {
		if t.hasBV {
			local = append(local, t)
			delete(f.u.factSeen, t.id)
		} else {
			kept = append(kept, t)
		}
	}
	f.u.facts = kept
	rng := tb.And(tb.Sle(args[0][0], bv), tb.Slt(bv, args[1][0]))
	if forall {
		return tb.Forall([]*Term{bv}, tb.Implies(tb.And(append([]*Term{rng}, local...)...), body))
	}
	return tb.Exists([]*Term{bv}, tb.And(append([]*Term{rng, body}, local...)...))
}

// quantInstance evaluates the body of a quantifier closure for one index term.
func (f *Frame) quantInstance(ci *closureInfo, idx *Term, in ssa.Instruction) *Term {
	tb := f.tb()
	sub := &Frame{u: f.u, fn: ci.fn, vals: map[ssa.Value][]*Term{}, spec: true, depth: f.depth + 1, freeVars: ci.bindings, inl: f.inl}
	if f.stub != nil {
		sub.stub = &stubEval{old: f.stub.old, startCtr: f.stub.startCtr, oldLoads: markOld(ci.fn), oldCalls: map[ssa.Instruction]bool{}}
	} else {
		sub.stub = &stubEval{old: f.u.M0, startCtr: 1 << 40, oldLoads: markOld(ci.fn), oldCalls: map[ssa.Instruction]bool{}}
	}
	sub.stub.oldCalls = markOldCalls(ci.fn, sub.stub.oldLoads)
	sub.set(ci.fn.Params[0], []*Term{idx})
	entry := BState{reach: tb.True(), mem: f.cur.mem}
	if f.stub != nil && f.stub.oldCalls[in] {
		entry.mem = f.stub.old
	}
	res, _ := sub.run(entry)
	return res[0]
}

// markOld computes the loads of fn whose value flows only into verifOld(...).
func markOld(fn *ssa.Function) map[ssa.Instruction]bool {
	out := map[ssa.Instruction]bool{}
	var oldCalls []*ssa.Call
	for _, b := range fn.Blocks {
		for _, in := range b.Instrs {
			if c, ok := in.(*ssa.Call); ok {
				if cf, ok := c.Call.Value.(*ssa.Function); ok {
					n := cf.Name()
					if o := cf.Origin(); o != nil {
						n = o.Name()
					}
					if n == "verifOld" {
						oldCalls = append(oldCalls, c)
					}
				}
			}
		}
	}
	seen := map[ssa.Value]bool{}
	var back func(v ssa.Value)
	back = func(v ssa.Value) {
		if seen[v] {
			return
		}
		seen[v] = true
		in, ok := v.(ssa.Instruction)
		if !ok {
			return
		}
		switch x := v.(type) {
		case *ssa.Phi:
			for _, e := range x.Edges {
				back(e)
			}
			return
		case *ssa.Alloc, *ssa.MakeClosure:
			return
		}
		out[in] = true
		var ops []*ssa.Value
		for _, op := range in.Operands(ops) {
			if *op != nil {
				back(*op)
			}
		}
	}
	for _, c := range oldCalls {
		for _, a := range c.Call.Args {
			back(a)
		}
	}
	return out
}

func markOldCalls(fn *ssa.Function, old map[ssa.Instruction]bool) map[ssa.Instruction]bool {
	out := map[ssa.Instruction]bool{}
	for in := range old {
		if _, ok := in.(*ssa.Call); ok {
			out[in] = true
		}
	}
	return out
}

// ------------------------------------------------------------------ calls by contract

// evalStub runs the contract stub of con with the given parameter / result /
// extra values. In call-site mode (newMem == nil) the post-state memory is the
// havoc of the assigns regions.
func (f *Frame) evalStub(con *Contract, vals [][]*Term, old MemState, newMem *MemState, freshLimit *Term, freeVars [][]*Term) *stubEval {
	stubFn := f.u.W.stubs[con]
	if stubFn == nil {
		panic("no stub for contract " + con.Key())
	}
	if len(stubFn.Params) != len(vals) {
		panic(fmt.Sprintf("contract %s: stub has %d parameters, %d values bound", con.Key(), len(stubFn.Params), len(vals)))
	}
	st := &stubEval{old: old, newMem: newMem, caller: f, oldLoads: markOld(stubFn), callerFreshLimit: freshLimit, startCtr: f.u.objCtr}
	st.oldCalls = markOldCalls(stubFn, st.oldLoads)
	sub := &Frame{u: f.u, fn: stubFn, vals: map[ssa.Value][]*Term{}, spec: true, depth: f.depth + 1, stub: st, inl: f.inl}
	for i, p := range stubFn.Params {
		want := f.u.W.layout.Size(p.Type())
		if int64(len(vals[i])) != want {
			panic(fmt.Sprintf("contract %s: parameter %s has %d slots, bound value has %d (signature mismatch)", con.Key(), p.Name(), want, len(vals[i])))
		}
		sub.set(p, vals[i])
	}
	if con.Flags["assigns_all"] {
		st.assignsAll = true
	}
	if con.Flags["noframe"] && f.stub == nil && newMem == nil {
		// used at a call site: the callee's writes were not checked against an assigns clause.
		// Without one, everything may have been written; with one, the clause is an assumption.
		hasAssigns := false
		for _, cl := range con.Clauses {
			if cl.Kind == "assigns" {
				hasAssigns = true
			}
		}
		if !hasAssigns {
			st.assignsAll = true
		} else {
			f.u.Trusted["assigns clause of "+con.Target+" is assumed (flag noframe: its frame is not verified)"] = true
		}
	}
	sub.run(BState{reach: f.tb().True(), mem: old})
	return st
}

func (f *Frame) callByContract(fn *ssa.Function, con *Contract, args [][]*Term, bindings [][]*Term, in ssa.Instruction, rt types.Type, anchor string) []*Term {
	tb := f.tb()
	u := f.u
	if con.Kind == "extern" {
		u.Trusted["assumed contract: "+con.Target] = true
	}
	if con.Flags["assumed"] {
		u.Trusted["assumed (not yet verified) contract of a /repo function: "+con.Target] = true
	}
	// results: fresh
	type freshObj struct {
		obj  *Term
		size int64
	}
	var freshObjs []freshObj
	var resVals [][]*Term
	var flat []*Term
	sig := fn.Signature
	for i := 0; i < sig.Results().Len(); i++ {
		v := u.freshValue("r!"+fn.Name(), sig.Results().At(i).Type())
		if con.Flags["freshresult"] {
			// the contract promises newly allocated results: a pointer / slice result designates
			// an object of its own (concrete identity, arbitrary content), offset 0
			switch sig.Results().At(i).Type().Underlying().(type) {
			case *types.Pointer, *types.Slice:
				v[0] = f.allocObj()
				v[1] = tb.BV(64, 0)
				if pt, ok := sig.Results().At(i).Type().Underlying().(*types.Pointer); ok {
					freshObjs = append(freshObjs, freshObj{v[0], u.W.layout.Size(pt.Elem())})
				}
			}
		}
		resVals = append(resVals, v)
		flat = append(flat, v...)
	}
	vals := append(append([][]*Term{}, args...), resVals...)
	// closure captures: the stub lists the captured variables (by value)
	if len(bindings) > 0 {
		stubFn := u.W.stubs[con]
		byName := map[string]int{}
		for i, fv := range fn.FreeVars {
			byName[fv.Name()] = i
		}
		for k := range bindings {
			idx := len(vals)
			if stubFn == nil || idx >= len(stubFn.Params) {
				break
			}
			i, ok := byName[stubFn.Params[idx].Name()]
			if !ok {
				i = k
			}
			et := fn.FreeVars[i].Type().Underlying().(*types.Pointer).Elem()
			vals = append(vals, f.loadFrom(f.cur.mem, et, bindings[i][0], bindings[i][1]))
		}
	}
	limit := tb.BVU(32, uint64(freshBase+u.objCtr+1))
	// objects allocated by the callee live in the id band [limit, limit+2^16); everything the
	// caller (and the contract stub) allocates afterwards comes after it
	u.objCtr += 1 << 16
	if len(freshObjs) > 0 {
		// the content of a newly allocated result is arbitrary, and the references it holds may
		// designate objects the callee allocated (its id band) - it is not a piece of the
		// initial memory, whose references are input-world objects
		bound := tb.Add(limit, tb.BV(32, 1<<16))
		f.cur.mem = f.cur.mem.clone()
		for _, fo := range freshObjs {
			if fo.size == 0 {
				continue
			}
			for k, m := range f.cur.mem.m {
				f.cur.mem.m[k] = u.mc.HavocRange(m, fo.obj, tb.BV(64, 0), tb.BV(64, fo.size), u.mc.NewBase("hv", m.sort, bound))
			}
		}
	}
	pre := f.cur.mem
	st := f.evalStub(con, vals, pre, nil, limit, nil)
	trustPre := false
	if u.Contract != nil {
		for _, t := range u.Contract.TrustPre {
			if t == funcKey(fn) || t == calleeName(fn) {
				trustPre = true
				u.Trusted["precondition of "+con.Key()+" is assumed at its call sites in "+u.Contract.Target+" (clause trustpre)"] = true
			}
		}
	}
	for i, r := range st.requires {
		if trustPre {
			u.addFact(tb.Implies(f.cur.reach, r))
			continue
		}
		u.addObl("pre", f.anchorFor(anchor), f.cur.reach, r, f.pos(in.Pos()), fmt.Sprintf("precondition %d of %s", i+1, con.Key()))
	}
	// frame: callee's assigns must be within ours
	if f.writeChecksActive() {
		if st.assignsAll {
			u.addObl("frame", f.anchorFor(anchor), f.cur.reach, tb.False(), f.pos(in.Pos()), "callee may assign everything")
		}
		for _, r := range st.regions {
			save := f.cur.reach
			f.cur.reach = tb.And(save, r.cond)
			f.checkWrite(r.obj, r.lo, tb.Sub(r.hi, r.lo), anchor, in.Pos())
			f.cur.reach = save
		}
	}
	if st.posted {
		f.cur.mem = st.afterHavoc
	}
	for i := 0; i < sig.Results().Len(); i++ {
		for _, fact := range u.validFacts(sig.Results().At(i).Type(), resVals[i], tb.BVU(32, 0xffffffff)) {
			u.addFact(fact)
		}
		u.strFacts(resVals[i])
	}
	for _, e := range st.ensures {
		u.addFact(tb.Implies(f.cur.reach, e))
	}
	return flat
}

// invoke: interface method call.
func (f *Frame) invoke(c *ssa.CallCommon, in ssa.Instruction, rt types.Type) []*Term {
	tb := f.tb()
	iv := f.val(c.Value)
	f.nonNil(iv[0], "invoke", in.Pos())
	var args [][]*Term
	for _, a := range c.Args {
		args = append(args, f.val(a))
	}
	// statically known dynamic type?
	if id, ok := iv[0].ConstInt64(); ok {
		if t := f.u.W.tagTypes[id]; t != nil {
			ms := f.u.W.prog.MethodSets.MethodSet(t)
			if sel := ms.Lookup(c.Method.Pkg(), c.Method.Name()); sel != nil {
				fn := f.u.W.prog.MethodValue(sel)
				if fn != nil {
					recv := f.unboxValue(t, iv)
					return f.callFunc(fn, append([][]*Term{recv}, args...), nil, in, rt)
				}
			}
		}
	}
	// interface-method contract: "extern (pkg.Iface).Method"
	q := "(" + types.TypeString(c.Value.Type(), nil) + ")." + c.Method.Name()
	for _, con := range f.u.W.all {
		if con.Kind == "extern" && con.Target == q {
			return f.invokeByContract(con, c, iv, args, in, rt)
		}
	}
	// error.Error() and friends: pure
	if c.Method.Name() == "Error" && len(args) == 0 {
		return f.freshResult("errstr", rt)
	}
	if f.spec {
		return f.freshResult("inv", rt)
	}
	f.u.note("interface call " + q + " has no contract: results and memory havocked")
	f.havocAll("invoke " + q)
	_ = tb
	return f.freshResult("inv", rt)
}

func (f *Frame) invokeByContract(con *Contract, c *ssa.CallCommon, iv []*Term, args [][]*Term, in ssa.Instruction, rt types.Type) []*Term {
	tb := f.tb()
	u := f.u
	u.Trusted["assumed interface contract: "+con.Target] = true
	sig := c.Signature()
	var resVals [][]*Term
	var flat []*Term
	for i := 0; i < sig.Results().Len(); i++ {
		v := u.freshValue("r!"+c.Method.Name(), sig.Results().At(i).Type())
		resVals = append(resVals, v)
		flat = append(flat, v...)
	}
	vals := append([][]*Term{iv}, args...)
	vals = append(vals, resVals...)
	limit := tb.BVU(32, uint64(freshBase+u.objCtr+1))
	u.objCtr += 1 << 16
	if f.callCount == nil {
		f.callCount = map[string]int{}
	}
	f.callCount["invoke:"+con.Target]++
	anchor := fmt.Sprintf("%s[%d]", con.Target, f.callCount["invoke:"+con.Target])
	st := f.evalStub(con, vals, f.cur.mem, nil, limit, nil)
	for i, r := range st.requires {
		u.addObl("pre", f.anchorFor(anchor), f.cur.reach, r, f.pos(in.Pos()), fmt.Sprintf("precondition %d of %s", i+1, con.Key()))
	}
	if f.writeChecksActive() {
		for _, r := range st.regions {
			save := f.cur.reach
			f.cur.reach = tb.And(save, r.cond)
			f.checkWrite(r.obj, r.lo, tb.Sub(r.hi, r.lo), anchor, in.Pos())
			f.cur.reach = save
		}
	}
	if st.posted {
		f.cur.mem = st.afterHavoc
	}
	for i := 0; i < sig.Results().Len(); i++ {
		for _, fact := range u.validFacts(sig.Results().At(i).Type(), resVals[i], tb.BVU(32, 0xffffffff)) {
			u.addFact(fact)
		}
	}
	for _, e := range st.ensures {
		u.addFact(tb.Implies(f.cur.reach, e))
	}
	return flat
}
