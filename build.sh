#!/bin/sh
# builds the engine (offline, vendored deps)
set -e
cd "$(dirname "$0")/engine"
export PATH=/root/go/pkg/mod/golang.org/toolchain@v0.0.1-go1.25.0.linux-amd64/bin:$PATH GOTOOLCHAIN=local GOPROXY=off
if [ -d vendor ]; then export GOFLAGS=-mod=vendor; else export GOFLAGS=-mod=mod; fi
mkdir -p ../bin
go build -o ../bin/gpverify .
